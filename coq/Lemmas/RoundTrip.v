(* Round trip (C05) and fixed point (C06) on the kind-disjoint core fragment:
   scalars, None, homogeneous lists / variadic tuples, fixed tuples, at any nesting.
   Proved against the generated scalar and gate tables. *)
From Coq Require Import ZArith List Bool String.
Require Import Base.PyNum Base.Outcome Model.Values Model.Vocab Model.Types Model.Conv Model.Into.
Require Import Gen.GenScalars Gen.GenGates Gen.GenExcept.
Import ListNotations.

(* the kinds of data a fragment type can possibly accept (an over-approximation that is
   exact enough to tell union members apart) *)
Definition kind_is_none (k : kind) : bool := match k with KNone => true | _ => false end.
(* the kinds of the values Python's == identifies with a literal *)
Definition lit_kinds (l : pyval) (k : kind) : bool :=
  match l with
  | VNone => kind_is_none k
  | VBool _ | VInt _ => match k with KBool | KInt | KFloat | KComplex => true | _ => false end
  | VStr _ => match k with KStr => true | _ => false end
  | VBytes _ => match k with KBytes | KByteArray => true | _ => false end
  | _ => true
  end.
Fixpoint accepts (t : ty) (k : kind) : bool :=
  match t with
  | TNone => kind_is_none k
  | TScalar s => scalar_allowed s k
  | TSeq _ _ | TTuple _ => gate_sequence k
  | TDict _ _ => gate_mapping k
  | TCond t' _ => accepts t' k
  | TUnion ms => existsb (fun m => accepts m k) ms
  | TLiteral vals => existsb (fun l => lit_kinds l k) vals
  | _ => true
  end.
Definition all_kinds : list kind :=
  [KNone; KBool; KInt; KFloat; KComplex; KStr; KBytes; KByteArray; KList; KTuple; KDict; KSet; KFrozenSet; KEnum; KInst;
   KStd KDecimal; KStd KFraction; KStd KDatetime; KStd KDate; KStd KTime; KStd KPath; KStd KPattern; KOpaque].
Lemma all_kinds_complete k : In k all_kinds.
Proof. destruct k as [| | | | | | | | | | | | | | |s|]; try destruct s; simpl; tauto. Qed.
Definition disjoint (a b : ty) : bool := forallb (fun k => negb (accepts a k && accepts b k)) all_kinds.
Fixpoint pairwise_disjoint (ms : list ty) : bool :=
  match ms with [] => true | m :: r => forallb (disjoint m) r && pairwise_disjoint r end.
Lemma disjoint_spec a b k : disjoint a b = true -> accepts b k = true -> accepts a k = false.
Proof.
  unfold disjoint. rewrite forallb_forall. intros H B. specialize (H k (all_kinds_complete k)).
  rewrite B, andb_true_r in H. now destruct (accepts a k).
Qed.

(* literal members that serialise to themselves *)
Definition lit_scalar (l : pyval) : Prop :=
  match l with VNone | VBool _ | VInt _ | VStr _ | VBytes _ => True | _ => False end.

Inductive rt_ty : ty -> Prop :=
| rt_none : rt_ty TNone
| rt_scalar s : rt_ty (TScalar s)
| rt_list e : rt_ty e -> rt_ty (TSeq SeqList e)
| rt_vtuple e : rt_ty e -> rt_ty (TSeq SeqTuple e)
| rt_tuple es : Forall rt_ty es -> rt_ty (TTuple es)
| rt_dict e : rt_ty e -> rt_ty (TDict (TScalar SStr) e)        (* text-keyed mappings: the JSON object *)
| rt_cond e c : rt_ty e -> rt_ty (TCond e c)
| rt_literal vals : Forall lit_scalar vals -> rt_ty (TLiteral vals)
| rt_union ms : Forall rt_ty ms -> pairwise_disjoint ms = true -> rt_ty (TUnion ms).

(* what one type guarantees *)
Definition rt_at (t : ty) : Prop :=
  forall v x, tc t v = Ok x ->
    (exists d, into_data t x = Ok d /\ tc t d = Ok x) /\   (* C05 *)
    tc t x = Ok x /\                                        (* a typed value is accepted as it is *)
    (exists d, into_auto x = Ok d /\ tc t d = Ok x).       (* C06: convert(x, T) = x *)

Lemma scalar_rt s : rt_at (TScalar s).
Proof.
  intros v x H. simpl in H.
  destruct (scalar_allowed s (kind_of v)) eqn:A; [|discriminate].
  unfold guard in H. destruct (scalar_ctor s v) as [y|e] eqn:C; [|destruct (caught _ _); discriminate].
  inversion H; subst y. clear H.
  destruct s, v; simpl in A, C; try discriminate; inversion C; subst; clear C;
    try (repeat split; try reflexivity; eexists; split; reflexivity).
  all: try (unfold to_float_raw in *; destruct (float_of_Z z) eqn:F; inversion H0; subst;
            repeat split; try reflexivity; eexists; split; reflexivity).
Qed.

Section MapOut.
  Context {A B : Type}.
  Lemma map_out_ok_forall2 (f : A -> outcome B) l ys :
    map_out f l = Ok ys -> Forall2 (fun a y => f a = Ok y) l ys.
  Proof.
    revert ys. induction l as [|a l IH]; simpl; intros ys H.
    - inversion H. constructor.
    - destruct (f a) as [y| |e] eqn:E; try discriminate.
      destruct (map_out f l) as [ys'| |e]; try discriminate. inversion H; subst.
      constructor; auto.
  Qed.
  Lemma forall2_map_out (f : A -> outcome B) l ys :
    Forall2 (fun a y => f a = Ok y) l ys -> map_out f l = Ok ys.
  Proof. induction 1 as [|a y l ys E _ IH]; simpl; [reflexivity|]. now rewrite E, IH. Qed.
End MapOut.

Lemma zip_out_ok_forall3 {A B C} (f : A -> B -> outcome C) l m zs :
  List.length l = List.length m -> zip_out f l m = Ok zs ->
  Forall2 (fun ab z => f (fst ab) (snd ab) = Ok z) (combine l m) zs.
Proof.
  revert m zs. induction l as [|a l IH]; intros [|b m] zs L H; simpl in *; try discriminate.
  - inversion H. constructor.
  - destruct (f a b) as [z| |e] eqn:E; try discriminate.
    destruct (zip_out f l m) as [zs'| |e] eqn:Z; try discriminate. inversion H; subst.
    constructor; auto.
Qed.

(* element-wise transport for homogeneous sequences *)
Lemma seq_transport e xs0 xs :
  rt_at e -> map_out (tc e) xs0 = Ok xs ->
  (exists ds, map_out (into_data e) xs = Ok ds /\ map_out (tc e) ds = Ok xs) /\
  map_out (tc e) xs = Ok xs /\
  (exists ds, map_out into_auto xs = Ok ds /\ map_out (tc e) ds = Ok xs).
Proof.
  intros R H. apply map_out_ok_forall2 in H.
  induction H as [|v x xs0 xs Hv _ IH]; simpl.
  - repeat split; try exists []; try split; reflexivity.
  - destruct (R v x Hv) as ((d & I1 & T1) & S1 & (d' & I2 & T2)).
    destruct IH as ((ds & M1 & N1) & S2 & (ds' & M2 & N2)).
    repeat split.
    + exists (d :: ds). rewrite I1, M1. split; [reflexivity|]. simpl. now rewrite T1, N1.
    + now rewrite S1, S2.
    + exists (d' :: ds'). rewrite I2, M2. split; [reflexivity|]. simpl. now rewrite T2, N2.
Qed.

Lemma tuple_transport es : Forall rt_at es -> forall vs xs,
  List.length vs = List.length es -> zip_out tc es vs = Ok xs ->
  (exists ds, zip_out into_data es xs = Ok ds /\ List.length ds = List.length es /\ zip_out tc es ds = Ok xs) /\
  zip_out tc es xs = Ok xs /\
  (exists ds, map_out into_auto xs = Ok ds /\ List.length ds = List.length es /\ zip_out tc es ds = Ok xs).
Proof.
  induction 1 as [|t es R _ IH]; intros vs xs L H.
  - destruct vs; simpl in *; inversion H; repeat split; try exists []; repeat split; reflexivity.
  - destruct vs as [|v vs]; simpl in L; [discriminate|]. simpl in H.
    destruct (tc t v) as [x| |e] eqn:E; try discriminate.
    destruct (zip_out tc es vs) as [xs'| |e] eqn:Z; try discriminate. inversion H; subst.
    destruct (R v x E) as ((d & I1 & T1) & S1 & (d' & I2 & T2)).
    destruct (IH vs xs' (eq_add_S _ _ L) Z) as ((ds & M1 & L1 & N1) & S2 & (ds' & M2 & L2 & N2)).
    repeat split.
    + exists (d :: ds). simpl. rewrite I1, M1, T1, N1, L1. repeat split; reflexivity.
    + simpl. now rewrite S1, S2.
    + exists (d' :: ds'). simpl. rewrite I2, M2, T2, N2, L2. repeat split; reflexivity.
Qed.

Lemma zip_out_length {A B C} (f : A -> B -> outcome C) l m zs :
  List.length l = List.length m -> zip_out f l m = Ok zs -> List.length zs = List.length l.
Proof.
  revert m zs. induction l as [|a l IH]; intros [|b m] zs L H; simpl in *; try discriminate.
  - now inversion H.
  - destruct (f a b); try discriminate. destruct (zip_out f l m) eqn:Z; try discriminate.
    inversion H; subst. simpl. f_equal. eapply IH; eauto.
Qed.

(* ------------------------------------------------------------------ kinds: soundness of [accepts] *)

Lemma first_ok_in {A B} (f : A -> outcome B) l y :
  first_ok f l = Ok y -> exists m, In m l /\ f m = Ok y.
Proof.
  induction l as [|a l IH]; simpl; [discriminate|].
  destruct (f a) as [z| |e] eqn:E; try discriminate.
  - intros H; inversion H; subst. exists a; auto.
  - intros H. destruct (IH H) as (m & I & F). exists m; auto.
Qed.

Lemma lit_kinds_sound v l : py_eqb v l = true -> lit_kinds l (kind_of v) = true.
Proof. destruct l; simpl; try reflexivity; destruct v; simpl; try discriminate; reflexivity. Qed.

(* whatever a type accepts has one of its kinds -- for every type of the model *)
Lemma accepts_sound t : forall v x, tc t v = Ok x -> accepts t (kind_of v) = true.
Proof.
  induction t using ty_ind'; intros v x Hx; simpl; try reflexivity; simpl in Hx.
  - destruct v; try discriminate; reflexivity.
  - destruct (scalar_allowed s (kind_of v)); [reflexivity|discriminate].
  - destruct (gate_sequence (kind_of v)); [reflexivity|discriminate].
  - destruct (gate_sequence (kind_of v)); [reflexivity|discriminate].
  - destruct (gate_mapping (kind_of v)); [reflexivity|discriminate].
  - apply first_ok_in in Hx. destruct Hx as (m & I & F).
    apply existsb_exists. exists m. split; [exact I|].
    rewrite Forall_forall in H. exact (H m I v x F).
  - destruct (existsb (lit_match v) vals) eqn:E; [|discriminate].
    apply existsb_exists in E. destruct E as (l & I & E). apply existsb_exists. exists l. split; [exact I|].
    apply lit_kinds_sound. now apply lit_match_eqb.
  - destruct (tc t v) as [y| |e] eqn:E; try discriminate. eapply IHt; eauto.
Qed.

(* outside its kinds a fragment type refuses (it does not raise) *)
Lemma reject_outside t : rt_ty t -> forall v, accepts t (kind_of v) = false -> tc t v = Reject.
Proof.
  induction t using ty_ind'; intros R; inversion R; subst; intros v A; simpl in A |- *; try discriminate.
  - destruct v; simpl in A; try discriminate; reflexivity.
  - now rewrite A.
  - now rewrite A.
  - now rewrite A.
  - now rewrite A.
  - now rewrite A.
  - (* union *)
    match goal with HR : Forall rt_ty ms |- _ => rename HR into RM end.
    clear R. induction ms as [|m ms IH]; simpl; [reflexivity|].
    simpl in A. apply orb_false_elim in A. destruct A as [A1 A2].
    inversion H as [|? ? Hm Hms]; subst. inversion RM as [|? ? Rm Rms]; subst.
    rewrite (Hm Rm v A1). apply IH; try assumption.
    match goal with HP : pairwise_disjoint (m :: ms) = true |- _ => simpl in HP; apply andb_prop in HP; apply HP end.
  - (* literal *)
    destruct (existsb (lit_match v) vals) eqn:E; [|reflexivity].
    apply existsb_exists in E. destruct E as (l & I & E).
    assert (X : existsb (fun l0 => lit_kinds l0 (kind_of v)) vals = true).
    { apply existsb_exists. exists l. split; [exact I|]. apply lit_kinds_sound. now apply lit_match_eqb. }
    rewrite X in A. discriminate.
  - match goal with HR : rt_ty t |- _ => rewrite (IHt HR v A) end. reflexivity.
Qed.

(* ------------------------------------------------------------------ unions of kind-disjoint members *)

Lemma first_ok_split {A B} (f : A -> outcome B) l y :
  first_ok f l = Ok y ->
  exists pre m post, l = (pre ++ m :: post)%list /\ Forall (fun p => f p = Reject) pre /\ f m = Ok y.
Proof.
  induction l as [|a l IH]; simpl; [discriminate|].
  destruct (f a) as [z| |e] eqn:E; try discriminate.
  - intros H; inversion H; subst. exists [], a, l. repeat split; auto.
  - intros H. destruct (IH H) as (pre & m & post & -> & P & F).
    exists (a :: pre), m, post. repeat split; auto.
Qed.

Lemma first_ok_skip {A B} (f : A -> outcome B) pre m post y :
  Forall (fun p => f p = Reject) pre -> f m = Ok y -> first_ok f (pre ++ m :: post)%list = Ok y.
Proof. induction 1 as [|p pre P _ IH]; simpl; intros F; [now rewrite F|]. rewrite P. auto. Qed.

Lemma pairwise_split pre m post :
  pairwise_disjoint (pre ++ m :: post)%list = true -> Forall (fun p => disjoint p m = true) pre.
Proof.
  induction pre as [|p pre IH]; simpl; intros H; [constructor|].
  apply andb_prop in H. destruct H as [H1 H2]. constructor; [|auto].
  rewrite forallb_forall in H1. apply H1. apply in_or_app. right. left. reflexivity.
Qed.

(* every earlier member refuses a value whose kind belongs to [m] *)
Lemma earlier_reject pre m y :
  Forall rt_ty pre -> Forall (fun p => disjoint p m = true) pre -> accepts m (kind_of y) = true ->
  Forall (fun p => tc p y = Reject) pre.
Proof.
  intros R D A. induction pre as [|p pre IH]; constructor; inversion R; inversion D; subst; auto.
  apply reject_outside; [assumption|]. eapply disjoint_spec; eauto.
Qed.

(* UnionConverter.into_data: the first member whose fast pass does not refuse the value serialises it *)
Definition union_pick (x : pyval) : list ty -> option (outcome pyval) :=
  fix go (l : list ty) : option (outcome pyval) :=
    match l with
    | [] => None
    | m :: r => match tc m x with Ok _ => Some (into_data m x) | Reject => go r | Escape z => Some (Escape z) end
    end.
Definition union_default (ms : list ty) (x : pyval) : outcome pyval :=
  match x with
  | VInst c _ _ => match with_class c class_name_of (fun m => into_data m x) ms with Some o => o | None => unmodelled end
  | _ => into_auto x
  end.
Lemma into_union_unfold ms x :
  into_data (TUnion ms) x = match union_pick x ms with Some o => o | None => union_default ms x end.
Proof. reflexivity. Qed.
Lemma union_pick_skip pre m post x y :
  Forall (fun p => tc p x = Reject) pre -> tc m x = Ok y ->
  union_pick x (pre ++ m :: post)%list = Some (into_data m x).
Proof.
  induction 1 as [|p pre P _ IH]; intros F; simpl.
  - now rewrite F.
  - rewrite P. auto.
Qed.
Lemma union_into_skip pre m post x y :
  Forall (fun p => tc p x = Reject) pre -> tc m x = Ok y ->
  into_data (TUnion (pre ++ m :: post)%list) x = into_data m x.
Proof. intros P F. rewrite into_union_unfold, (union_pick_skip pre m post x y P F). reflexivity. Qed.

Lemma lit_self v l : lit_scalar l -> py_eqb v l = true -> into_auto v = Ok v.
Proof. destruct l; simpl; try tauto; intros _; destruct v; simpl; try discriminate; reflexivity. Qed.

Lemma lit_member_self v vals : Forall lit_scalar vals -> existsb (lit_match v) vals = true -> into_auto v = Ok v.
Proof.
  intros F E. apply existsb_exists in E. destruct E as (l & I & E). apply lit_match_eqb in E.
  rewrite Forall_forall in F. eapply lit_self; eauto.
Qed.

(* ------------------------------------------------------------------ text-keyed mappings *)

Definition strkey (kv : string * pyval) : pyval * pyval := (VStr (fst kv), snd kv).

Lemma dict_set_str n v (acc : list (string * pyval)) :
  dict_set (VStr n) v (map strkey acc) = map strkey (assoc_set String.eqb n v acc).
Proof.
  unfold dict_set. induction acc as [|[k y] acc IH]; simpl; [reflexivity|].
  destruct (String.eqb n k); simpl; [reflexivity|]. now rewrite IH.
Qed.

Lemma assoc_set_keys n v (acc : list (string * pyval)) :
  map fst (assoc_set String.eqb n v acc) = if existsb (String.eqb n) (map fst acc) then map fst acc else (map fst acc ++ [n])%list.
Proof.
  induction acc as [|[k y] acc IH]; simpl; [reflexivity|].
  destruct (String.eqb n k); simpl; [reflexivity|]. rewrite IH. destruct (existsb _ _); reflexivity.
Qed.

Lemma NoDup_app_one {A} (l : list A) (n : A) : NoDup l -> ~ In n l -> NoDup (l ++ [n])%list.
Proof.
  induction 1 as [|a l Na _ IH]; simpl; intros Hn; [repeat constructor; tauto|].
  constructor; [|apply IH; tauto]. intros Hin. apply in_app_or in Hin. destruct Hin as [Hin|[->|[]]]; tauto.
Qed.

Lemma assoc_set_nodup n v (acc : list (string * pyval)) : NoDup (map fst acc) -> NoDup (map fst (assoc_set String.eqb n v acc)).
Proof.
  intros N. rewrite assoc_set_keys. destruct (existsb (String.eqb n) (map fst acc)) eqn:E; [exact N|].
  apply NoDup_app_one; [exact N|]. intros Hin.
  assert (X : existsb (String.eqb n) (map fst acc) = true) by (apply existsb_exists; exists n; split; [exact Hin|apply String.eqb_refl]).
  congruence.
Qed.

Lemma assoc_set_forall_str (P : string * pyval -> Prop) n v acc :
  (forall k, P (k, v)) -> Forall P acc -> Forall P (assoc_set String.eqb n v acc).
Proof.
  intros Pv. induction 1 as [|[k y] acc Pk Fa IH]; simpl; [constructor; [apply Pv|constructor]|].
  destruct (String.eqb n k); constructor; auto.
Qed.

Lemma fold_set_str (P : pyval -> Prop) (l : list (string * pyval)) : forall acc,
  NoDup (map fst acc) -> Forall (fun nv => P (snd nv)) acc -> Forall (fun nv => P (snd nv)) l ->
  exists acc', fold_left (fun d kv => dict_set (fst kv) (snd kv) d) (map strkey l) (map strkey acc) = map strkey acc' /\
               NoDup (map fst acc') /\ Forall (fun nv => P (snd nv)) acc'.
Proof.
  induction l as [|[n v] l IH]; intros acc N Fa Fl; simpl.
  - exists acc. auto.
  - rewrite dict_set_str. inversion Fl as [|? ? Pv Fl']; subst. apply IH; [now apply assoc_set_nodup| |exact Fl'].
    apply assoc_set_forall_str; [intros k; exact Pv|exact Fa].
Qed.

Lemma dict_set_fresh n v (acc : list (string * pyval)) :
  ~ In n (map fst acc) -> dict_set (VStr n) v (map strkey acc) = map strkey (acc ++ [(n, v)])%list.
Proof.
  unfold dict_set. induction acc as [|[k y] acc IH]; simpl; intros N; [reflexivity|].
  destruct (String.eqb n k) eqn:E; [apply String.eqb_eq in E; subst; tauto|].
  rewrite IH; [reflexivity|tauto].
Qed.

Lemma fold_set_distinct (l : list (string * pyval)) : forall acc,
  NoDup (map fst (acc ++ l)%list) ->
  fold_left (fun d kv => dict_set (fst kv) (snd kv) d) (map strkey l) (map strkey acc) = map strkey (acc ++ l)%list.
Proof.
  induction l as [|[n v] l IH]; intros acc N; simpl; [now rewrite app_nil_r|].
  rewrite dict_set_fresh.
  - rewrite IH; rewrite <- app_assoc; [reflexivity|exact N].
  - rewrite map_app in N. apply NoDup_remove_2 in N. intros Hin. apply N. apply in_or_app. now left.
Qed.

Lemma strkeys_hashable (l : list (string * pyval)) : forallb (fun kv : pyval * pyval => hashable (fst kv)) (map strkey l) = true.
Proof. apply forallb_forall. intros kv Hin. apply in_map_iff in Hin. destruct Hin as (x & <- & _). reflexivity. Qed.

Lemma dict_ctor_strkeys (l : list (string * pyval)) :
  NoDup (map fst l) -> dict_ctor (map strkey l) = ROk (VDict (map strkey l)).
Proof. intros N. unfold dict_ctor. rewrite strkeys_hashable. f_equal. f_equal. exact (fold_set_distinct l [] N). Qed.

Lemma build_dict_strkeys (l : list (string * pyval)) :
  NoDup (map fst l) -> build_dict (map strkey l) = Ok (VDict (map strkey l)).
Proof. intros N. unfold build_dict. now rewrite dict_ctor_strkeys. Qed.

(* what str accepts is a str, and it is returned as it is; a str serialises to itself *)
Lemma str_image k k' : tc (TScalar SStr) k = Ok k' -> exists s, k = VStr s /\ k' = VStr s.
Proof. destruct k; simpl; try discriminate. intros H; inversion H. eauto. Qed.
Lemma str_self s : tc (TScalar SStr) (VStr s) = Ok (VStr s) /\ into_data (TScalar SStr) (VStr s) = Ok (VStr s) /\ into_auto (VStr s) = Ok (VStr s).
Proof. repeat split; reflexivity. Qed.

Lemma map_out_cons_ok {A B} (f : A -> outcome B) a l y ys :
  f a = Ok y -> map_out f l = Ok ys -> map_out f (a :: l) = Ok (y :: ys).
Proof. intros E M. simpl. now rewrite E, M. Qed.

Definition dict_conv (e : ty) (kv : pyval * pyval) : outcome (pyval * pyval) :=
  match tc (TScalar SStr) (fst kv) with
  | Ok k' => match tc e (snd kv) with Ok v' => Ok (k', v') | Reject => Reject | Escape x => Escape x end
  | Reject => Reject
  | Escape x => Escape x
  end.

Definition dict_into (e : ty) (kv : pyval * pyval) : outcome (pyval * pyval) :=
  match into_data (TScalar SStr) (fst kv) with
  | Ok k' => match into_data e (snd kv) with Ok v' => Ok (k', v') | Reject => Reject | Escape z => Escape z end
  | Reject => Reject
  | Escape z => Escape z
  end.
Definition auto_pair (kv : pyval * pyval) : outcome (pyval * pyval) :=
  match into_auto (fst kv) with
  | Ok k' => match into_auto (snd kv) with Ok v' => Ok (k', v') | Reject => Reject | Escape z => Escape z end
  | Reject => Reject
  | Escape z => Escape z
  end.
Lemma into_dict_str e kvs : is_any_ty e = false ->
  into_data (TDict (TScalar SStr) e) (VDict kvs) =
  match map_out (dict_into e) kvs with Ok out => build_dict out | Reject => Reject | Escape z => Escape z end.
Proof. intros NA. simpl. rewrite NA. reflexivity. Qed.
Lemma auto_dict kvs :
  into_auto (VDict kvs) = match map_out auto_pair kvs with Ok out => build_dict out | Reject => Reject | Escape z => Escape z end.
Proof. reflexivity. Qed.

(* the converted pairs of a text-keyed mapping *)
Lemma dict_pairs_image e pairs kvs :
  map_out (dict_conv e) pairs = Ok kvs ->
  exists l, kvs = map strkey l /\ Forall (fun nv => exists v0, tc e v0 = Ok (snd nv)) l.
Proof.
  revert kvs. induction pairs as [|[k v] pairs IH]; intros kvs H; simpl in H.
  - inversion H. exists []. split; [reflexivity|constructor].
  - unfold dict_conv in H at 1. simpl fst in H. simpl snd in H.
    destruct (tc (TScalar SStr) k) as [k'| |z] eqn:Ek; try discriminate.
    destruct (tc e v) as [v'| |z] eqn:Ev; try discriminate.
    destruct (map_out (dict_conv e) pairs) as [rest| |z] eqn:M; try discriminate. inversion H; subst.
    destruct (IH rest eq_refl) as (l & -> & F). destruct (str_image k k' Ek) as (s & -> & ->).
    exists ((s, v') :: l). split; [reflexivity|]. constructor; [simpl; eauto|exact F].
Qed.

(* converting typed / serialised pairs again gives the typed pairs back *)
Lemma dict_pairs_again e (l ld : list (string * pyval)) :
  Forall2 (fun nv nd => fst nd = fst nv /\ tc e (snd nd) = Ok (snd nv)) l ld ->
  map_out (dict_conv e) (map strkey ld) = Ok (map strkey l).
Proof.
  induction 1 as [|[n y] [n' d] l ld [E T] _ IH]; simpl; [reflexivity|]. simpl in E, T. subst n'.
  unfold dict_conv at 1. simpl fst. simpl snd. destruct (str_self n) as (-> & _). rewrite T, IH. reflexivity.
Qed.

Theorem rt_all t : rt_ty t -> rt_at t.
Proof.
  induction t using ty_ind'; intros R; inversion R; subst.
  - (* None *) intros v x H. simpl in H. destruct v; inversion H; subst.
    repeat split; try reflexivity; exists VNone; split; reflexivity.
  - apply scalar_rt.
  - (* list *)
    specialize (IHt H0). intros v x H. simpl in H.
    destruct (gate_sequence (kind_of v)) eqn:G; [|discriminate].
    destruct (map_out (tc t) (items_of v)) as [xs| |e] eqn:M; try discriminate; try (destruct (caught _ _); discriminate).
    simpl in H. inversion H; subst x.
    destruct (seq_transport t _ _ IHt M) as ((ds & M1 & N1) & S1 & (ds' & M2 & N2)).
    repeat split.
    + exists (VList ds). simpl. rewrite M1. split; [reflexivity|]. simpl. now rewrite N1.
    + simpl. now rewrite S1.
    + exists (VList ds'). simpl. rewrite M2. split; [reflexivity|]. simpl. now rewrite N2.
  - (* variadic tuple *)
    specialize (IHt H0). intros v x H. simpl in H.
    destruct (gate_sequence (kind_of v)) eqn:G; [|discriminate].
    destruct (map_out (tc t) (items_of v)) as [xs| |e] eqn:M; try discriminate; try (destruct (caught _ _); discriminate).
    simpl in H. inversion H; subst x.
    destruct (seq_transport t _ _ IHt M) as ((ds & M1 & N1) & S1 & (ds' & M2 & N2)).
    repeat split.
    + exists (VTuple ds). simpl. rewrite M1. split; [reflexivity|]. simpl. now rewrite N1.
    + simpl. now rewrite S1.
    + exists (VTuple ds'). simpl. rewrite M2. split; [reflexivity|]. simpl. now rewrite N2.
  - (* fixed tuple *)
    assert (A : Forall rt_at es).
    { clear R. induction H as [|t es Ht _ IH]; inversion H1; subst; constructor; auto. }
    intros v x Hx. simpl in Hx.
    destruct (gate_sequence (kind_of v)) eqn:G; [|discriminate].
    destruct (Nat.eqb (List.length (items_of v)) (List.length es)) eqn:L; [|discriminate]. simpl in Hx.
    apply Nat.eqb_eq in L.
    destruct (zip_out tc es (items_of v)) as [xs| |e] eqn:Z; try discriminate. inversion Hx; subst x.
    pose proof (zip_out_length _ _ _ _ (eq_sym L) Z) as LX.
    destruct (tuple_transport es A _ _ L Z) as ((ds & M1 & L1 & N1) & S1 & (ds' & M2 & L2 & N2)).
    repeat split.
    + exists (VTuple ds). simpl. rewrite M1. split; [reflexivity|]. simpl. rewrite L1, Nat.eqb_refl. simpl. now rewrite N1.
    + simpl. rewrite LX, Nat.eqb_refl. simpl. now rewrite S1.
    + exists (VTuple ds'). simpl. rewrite M2. split; [reflexivity|]. simpl. rewrite L2, Nat.eqb_refl. simpl. now rewrite N2.
  - (* text-keyed mappings *)
    match goal with HR : rt_ty t2 |- _ => specialize (IHt2 HR); rename HR into Rv end.
    intros v x Hx. simpl in Hx.
    destruct (gate_mapping (kind_of v)) eqn:G; [|discriminate].
    change (map_out _ (pairs_of v)) with (map_out (dict_conv t2) (pairs_of v)) in Hx.
    destruct (map_out (dict_conv t2) (pairs_of v)) as [kvs| |z] eqn:M; try discriminate; try (destruct (caught _ _); discriminate).
    destruct (dict_pairs_image t2 _ _ M) as (l0 & -> & F0).
    unfold guard, dict_ctor in Hx. rewrite strkeys_hashable in Hx.
    destruct (fold_set_str (fun y => exists v0, tc t2 v0 = Ok y) l0 [] (NoDup_nil _) (Forall_nil _) F0) as (l & E & N & F).
    simpl in E. rewrite E in Hx. inversion Hx; subst x. clear Hx E.
    (* per entry: the serialised value, the untyped serialised value *)
    assert (X : exists ld ld',
              Forall2 (fun nv nd => fst nd = fst nv /\ tc t2 (snd nd) = Ok (snd nv)) l ld /\
              Forall2 (fun nv nd => fst nd = fst nv /\ tc t2 (snd nd) = Ok (snd nv)) l ld' /\
              Forall2 (fun nv nd => fst nd = fst nv /\ tc t2 (snd nd) = Ok (snd nv)) l l /\
              map_out (dict_into t2) (map strkey l) = Ok (map strkey ld) /\
              map_out auto_pair (map strkey l) = Ok (map strkey ld')).
    { clear N. induction F as [|[n y] l (v0 & E0) _ IH].
      - exists [], []. repeat split; constructor.
      - destruct IH as (ld & ld' & A1 & A2 & A3 & M1 & M2).
        destruct (IHt2 v0 y E0) as ((d & I1 & T1) & S1 & (d' & I2 & T2)).
        exists ((n, d) :: ld), ((n, d') :: ld'). repeat split; try (constructor; simpl; auto; fail).
        + simpl map. apply map_out_cons_ok; [|exact M1]. unfold dict_into, strkey. simpl. now rewrite I1.
        + simpl map. apply map_out_cons_ok; [|exact M2]. unfold auto_pair, strkey. simpl. now rewrite I2. }
    destruct X as (ld & ld' & A1 & A2 & A3 & M1 & M2).
    assert (Nk : forall m, Forall2 (fun nv nd : string * pyval => fst nd = fst nv /\ tc t2 (snd nd) = Ok (snd nv)) l m -> map fst m = map fst l).
    { clear. induction 1 as [|a b l m [E _] _ IH]; simpl; [reflexivity|]. now rewrite E, IH. }
    assert (NA : is_any_ty t2 = false) by (destruct Rv; reflexivity).
    assert (Again : forall m, Forall2 (fun nv nd : string * pyval => fst nd = fst nv /\ tc t2 (snd nd) = Ok (snd nv)) l m ->
                    tc (TDict (TScalar SStr) t2) (VDict (map strkey m)) = Ok (VDict (map strkey l))).
    { intros m Hm. simpl. replace (gate_mapping KDict) with true by reflexivity.
      change (map_out _ (map strkey m)) with (map_out (dict_conv t2) (map strkey m)).
      rewrite (dict_pairs_again t2 l m Hm). unfold guard. now rewrite (dict_ctor_strkeys l N). }
    repeat split.
    + exists (VDict (map strkey ld)). split; [|now apply Again].
      rewrite (into_dict_str t2 _ NA), M1. apply build_dict_strkeys. now rewrite (Nk ld A1).
    + now apply Again.
    + exists (VDict (map strkey ld')). split; [|now apply Again].
      rewrite auto_dict, M2. apply build_dict_strkeys. now rewrite (Nk ld' A2).
  - (* union of kind-disjoint members *)
    intros v x Hx. simpl in Hx.
    destruct (first_ok_split _ _ _ Hx) as (pre & m & post & -> & Pv & Fm).
    assert (Rm : rt_ty m /\ Forall rt_ty pre).
    { apply Forall_app in H1. destruct H1 as [Hp Hm]. inversion Hm; auto. }
    destruct Rm as [Rm Rpre].
    assert (Am : rt_at m).
    { rewrite Forall_forall in H. apply H; [|exact Rm]. apply in_or_app. right. left. reflexivity. }
    pose proof (pairwise_split _ _ _ H2) as D.
    destruct (Am v x Fm) as ((d & I1 & T1) & S1 & (d' & I2 & T2)).
    pose proof (earlier_reject pre m x Rpre D (accepts_sound m x x S1)) as Px.
    pose proof (earlier_reject pre m d Rpre D (accepts_sound m d x T1)) as Pd.
    pose proof (earlier_reject pre m d' Rpre D (accepts_sound m d' x T2)) as Pd'.
    repeat split.
    + exists d. rewrite (union_into_skip pre m post x x Px S1). split; [exact I1|].
      simpl. apply first_ok_skip; assumption.
    + simpl. apply first_ok_skip; assumption.
    + exists d'. split; [exact I2|]. simpl. apply first_ok_skip; assumption.
  - (* scalar literals *)
    intros v x Hx. simpl in Hx. destruct (existsb (lit_match v) vals) eqn:E; [|discriminate].
    inversion Hx; subst x. pose proof (lit_member_self v vals H0 E) as S.
    repeat split.
    + exists v. simpl. rewrite S, E. split; reflexivity.
    + simpl. now rewrite E.
    + exists v. simpl. rewrite S, E. split; reflexivity.
  - (* conditions *)
    match goal with HR : rt_ty t |- _ => specialize (IHt HR) end. intros v x Hx. simpl in Hx.
    destruct (tc t v) as [y| |e] eqn:E; try discriminate.
    destruct (guard S_cond_try (eval_cond c y)) as [[|]| |e] eqn:G; try discriminate.
    inversion Hx; subst y.
    destruct (IHt v x E) as ((d & I1 & T1) & S1 & (d' & I2 & T2)).
    repeat split.
    + exists d. simpl. rewrite T1, G. split; [exact I1|reflexivity].
    + simpl. now rewrite S1, G.
    + exists d'. simpl. rewrite T2, G. split; [exact I2|reflexivity].
Qed.

Corollary roundtrip_core t v x :
  rt_ty t -> tc t v = Ok x -> exists d, into_data t x = Ok d /\ tc t d = Ok x.
Proof. intros R H. exact (proj1 (rt_all t R v x H)). Qed.

Corollary typed_self_core t v x : rt_ty t -> tc t v = Ok x -> tc t x = Ok x.
Proof. intros R H. exact (proj1 (proj2 (rt_all t R v x H))). Qed.

Corollary fixed_point_core t v x :
  rt_ty t -> tc t v = Ok x -> exists d, into_auto x = Ok d /\ tc t d = Ok x.
Proof. intros R H. exact (proj2 (proj2 (rt_all t R v x H))). Qed.

(* a bool stays a bool; interchange scalars serialise to themselves *)
Lemma bool_stays_bool b : into_data (TScalar SBool) (VBool b) = Ok (VBool b).
Proof. reflexivity. Qed.
