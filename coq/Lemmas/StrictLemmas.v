(* C02: strictness -- no coercion across value kinds, at any depth. *)
From Coq Require Import ZArith List Bool String.
Require Import Base.PyNum Base.Outcome Model.Values Model.Vocab Model.Types Model.Expected Model.Conv.
Require Import Gen.GenScalars Gen.GenGates Gen.GenExcept Lemmas.AgreeLemmas Lemmas.AgreeThm Lemmas.RoundTrip.
Import ListNotations.

(* ---- the matrix, written from the property text ---- *)
Definition strict_ok (s : scalar) (k : kind) : bool :=
  match s, k with
  | SBool, KBool => true                                   (* only a bool is a bool *)
  | SInt, KInt | SInt, KBool => true                       (* bool is an int in Python *)
  | SFloat, KFloat | SFloat, KInt | SFloat, KBool => true  (* widening int -> float *)
  | SComplex, KComplex | SComplex, KFloat | SComplex, KInt | SComplex, KBool => true
  | SStr, KStr => true                                     (* text only as text *)
  | SBytes, KBytes | SBytes, KByteArray | SByteArray, KBytes | SByteArray, KByteArray => true
  | _, _ => false
  end.

Definition is_seq_kind (k : kind) : bool := match k with KList | KTuple => true | _ => false end.
Definition is_map_kind (k : kind) : bool := match k with KDict => true | _ => false end.

Lemma scalar_table_strict s k : scalar_allowed s k = strict_ok s k.
Proof. destruct s, k; try reflexivity; destruct k; reflexivity. Qed.

Lemma gates_strict k :
  gate_sequence k = is_seq_kind k /\ gate_mapping k = is_map_kind k /\
  pane_seq_gate_try k = is_seq_kind k /\ pane_map_gate_try k = is_map_kind k /\
  pane_seq_gate_collect k = is_seq_kind k /\ pane_map_gate_collect k = is_map_kind k.
Proof. destruct k; try (repeat split; reflexivity); destruct k; repeat split; reflexivity. Qed.

(* kinds that Python's == can relate *)
Definition is_num_kind (k : kind) : bool := match k with KBool | KInt | KFloat | KComplex => true | _ => false end.
Definition kind_compat (a b : kind) : bool :=
  (is_num_kind a && is_num_kind b) ||
  match a, b with
  | KNone, KNone | KStr, KStr | KBytes, KBytes | KBytes, KByteArray | KByteArray, KBytes | KByteArray, KByteArray
  | KList, KList | KTuple, KTuple | KDict, KDict | KSet, KSet | KSet, KFrozenSet | KFrozenSet, KSet | KFrozenSet, KFrozenSet
  | KEnum, KEnum | KInst, KInst | KOpaque, KOpaque => true
  | KStd x, KStd y => stdkind_eqb x y
  | _, _ => false
  end.

Lemma py_eqb_kind a b : py_eqb a b = true -> kind_compat (kind_of a) (kind_of b) = true.
Proof.
  destruct a, b; simpl; intros H; try reflexivity; try discriminate;
    try (unfold py_eqb in H; simpl in H; discriminate).
  - apply andb_prop in H as [H _]. unfold kind_compat. simpl. now rewrite H.
Qed.

(* which kinds of value a type may accept at its top level *)
Fixpoint accepts_kind (t : ty) (k : kind) : bool :=
  match t with
  | TAny => true
  | TNone => match k with KNone => true | _ => false end
  | TScalar s => strict_ok s k
  | TSeq _ _ | TTuple _ => is_seq_kind k
  | TDict _ _ | TStruct _ | TTagged _ _ _ => is_map_kind k
  | TUnion ms => existsb (fun m => accepts_kind m k) ms
  | TLiteral vals => existsb (fun l => kind_eqb k (kind_of l)) vals       (* the literal's own kind, exactly *)
  | TEnum _ members =>
      match enum_inner members with
      | TUnion hs => existsb (fun h => match h with TScalar s => strict_ok s k | TNone => match k with KNone => true | _ => false end | _ => true end) hs
      | TScalar s => strict_ok s k
      | TNone => match k with KNone => true | _ => false end
      | _ => true
      end
  | TClass h _ => (is_seq_kind k && has_fmt FTuple h) || (is_map_kind k && has_fmt FStruct h)
  | TCond inner _ => accepts_kind inner k
  end.

Lemma head_kind h v x : tc_head h v = Ok x ->
  match h with TScalar s => strict_ok s (kind_of v) | TNone => match kind_of v with KNone => true | _ => false end | _ => true end = true.
Proof.
  destruct h; simpl; try reflexivity.
  - destruct v; simpl; intros H; try discriminate; reflexivity.
  - rewrite scalar_table_strict. destruct (strict_ok s (kind_of v)); [reflexivity|discriminate].
Qed.

Lemma first_ok_exists {A B} (f : A -> outcome B) l y :
  first_ok f l = Ok y -> exists a, In a l /\ f a = Ok y.
Proof.
  induction l as [|a l IH]; simpl; [discriminate|].
  destruct (f a) as [b| |e] eqn:E; try discriminate.
  - intros H; inversion H; subst. exists a. split; [now left|assumption].
  - intros H. destruct (IH H) as (a' & Hin & Ha). exists a'. split; [now right|assumption].
Qed.

Theorem strict_at_top t v x : tc t v = Ok x -> accepts_kind t (kind_of v) = true.
Proof.
  revert v x. induction t using ty_ind'; intros v x Hx; simpl in *.
  - reflexivity.
  - destruct v; try discriminate; reflexivity.
  - rewrite scalar_table_strict in Hx. destruct (strict_ok s (kind_of v)); [reflexivity|discriminate].
  - destruct (gates_strict (kind_of v)) as (G & _). rewrite G in Hx. destruct (is_seq_kind (kind_of v)); [reflexivity|discriminate].
  - destruct (gates_strict (kind_of v)) as (G & _). rewrite G in Hx.
    destruct (is_seq_kind (kind_of v)); [reflexivity|discriminate].
  - destruct (gates_strict (kind_of v)) as (_ & G & _). rewrite G in Hx. destruct (is_map_kind (kind_of v)); [reflexivity|discriminate].
  - destruct (gates_strict (kind_of v)) as (_ & G & _). rewrite G in Hx. destruct (is_map_kind (kind_of v)); [reflexivity|discriminate].
  - apply first_ok_exists in Hx as (m & Hin & Hm). apply existsb_exists. exists m. split; [assumption|].
    rewrite Forall_forall in H. eapply H; eauto.
  - destruct (existsb (lit_match v) vals) eqn:E; [|discriminate].
    apply existsb_exists in E as (l & Hin & Hl). apply existsb_exists. exists l. split; [assumption|].
    unfold lit_match in Hl. apply andb_prop in Hl. tauto.
  - unfold tc_enum_inner in Hx. destruct (enum_inner ms) as [| |s| | | | | hs| | | | |] eqn:E; try reflexivity.
    + destruct (tc_head TNone v) as [y| |e] eqn:T; try discriminate. apply (head_kind TNone v y T).
    + destruct (tc_head (TScalar s) v) as [y| |e] eqn:T; try discriminate. apply (head_kind (TScalar s) v y T).
    + destruct (first_ok (fun h => tc_head h v) hs) as [y| |e] eqn:F; try discriminate.
      apply first_ok_exists in F as (h & Hin & Hh). apply existsb_exists. exists h. split; [assumption|].
      apply (head_kind h v y Hh).
  - destruct (gates_strict (kind_of v)) as (_ & _ & G1 & G2 & _). rewrite G1, G2 in Hx.
    destruct (is_seq_kind (kind_of v)); simpl.
    + destruct (has_fmt FTuple h); [reflexivity|discriminate].
    + destruct (is_map_kind (kind_of v)); [|discriminate]. destruct (has_fmt FStruct h); [reflexivity|discriminate].
  - destruct (tc t v) as [y| |e] eqn:T; try discriminate. eapply IHt; eauto.
  - destruct (gates_strict (kind_of v)) as (_ & G & _). rewrite G in Hx. destruct (is_map_kind (kind_of v)); [reflexivity|discriminate].
Qed.

(* a container / union conversion succeeds only through the element conversions:
   so strictness holds in every embedding context, at every depth *)
Theorem seq_elements_converted c e v x :
  tc (TSeq c e) v = Ok x -> Forall (fun xi => exists yi, tc e xi = Ok yi) (items_of v).
Proof.
  simpl. destruct (gate_sequence (kind_of v)); [|discriminate].
  destruct (map_out (tc e) (items_of v)) as [ys| |z] eqn:M; try discriminate; try (destruct (caught _ _); discriminate).
  intros _. apply map_out_ok_forall2 in M. induction M; constructor; eauto.
Qed.

Theorem tuple_slots_converted es v x :
  tc (TTuple es) v = Ok x ->
  Forall2 (fun t xi => exists yi, tc t xi = Ok yi) es (items_of v).
Proof.
  simpl. destruct (gate_sequence (kind_of v)); [|discriminate]. simpl.
  destruct (Nat.eqb (List.length (items_of v)) (List.length es)) eqn:L; [|discriminate]. apply Nat.eqb_eq in L.
  destruct (zip_out tc es (items_of v)) as [ys| |z] eqn:Z; try discriminate. intros _.
  revert L ys Z. generalize (items_of v). induction es as [|t es IH]; intros [|xi xs] L ys Z; simpl in *; try discriminate.
  - constructor.
  - destruct (tc t xi) as [y| |z] eqn:T; try discriminate.
    destruct (zip_out tc es xs) as [ys'| |z] eqn:Z'; try discriminate.
    constructor; eauto.
Qed.

Theorem dict_entries_converted kt vt v x :
  tc (TDict kt vt) v = Ok x ->
  Forall (fun kv => (exists k', tc kt (fst kv) = Ok k') /\ (exists v', tc vt (snd kv) = Ok v')) (pairs_of v).
Proof.
  simpl. destruct (gate_mapping (kind_of v)); [|discriminate].
  match goal with |- context [map_out ?f ?l] => destruct (map_out f l) as [ys| |z] eqn:M end;
    try discriminate; try (destruct (caught _ _); discriminate).
  intros _. apply map_out_ok_forall2 in M. induction M as [|kv y l ys Hk _ IH]; constructor; auto.
  destruct (tc kt (fst kv)) as [k'| |z]; try discriminate.
  destruct (tc vt (snd kv)) as [v'| |z]; try discriminate. eauto.
Qed.

Theorem union_member_converted ms v x :
  tc (TUnion ms) v = Ok x -> exists m, In m ms /\ tc m v = Ok x.
Proof. simpl. apply first_ok_exists. Qed.

(* the result of a scalar conversion has the target's kind: no other coercion *)
Definition scalar_kind (s : scalar) : kind :=
  match s with SBool => KBool | SInt => KInt | SFloat => KFloat | SComplex => KComplex
             | SStr => KStr | SBytes => KBytes | SByteArray => KByteArray end.

Theorem scalar_result_kind s v x : tc (TScalar s) v = Ok x -> kind_of x = scalar_kind s.
Proof.
  simpl. destruct (scalar_allowed s (kind_of v)); [|discriminate].
  unfold guard. destruct (scalar_ctor s v) as [y|e] eqn:C; [|destruct (caught _ _); discriminate].
  intros H; inversion H; subst y.
  destruct s, v; simpl in C; try discriminate; inversion C; try reflexivity.
  all: unfold to_float_raw in *; destruct (float_of_Z z); inversion C; reflexivity.
Qed.

(* int -> int and float -> float are the identity; bool -> int is 0/1 *)
Theorem scalar_same_kind_identity s v x :
  tc (TScalar s) v = Ok x -> kind_of v = scalar_kind s -> x = v.
Proof.
  simpl. destruct (scalar_allowed s (kind_of v)); [|discriminate].
  unfold guard. destruct (scalar_ctor s v) as [y|e] eqn:C; [|destruct (caught _ _); discriminate].
  intros H K; inversion H; subst y.
  destruct s, v; simpl in K; try discriminate; simpl in C; inversion C; reflexivity.
Qed.
