(* C07: error trees localise failures compositionally. *)
From Coq Require Import ZArith List Bool String Lia.
Require Import Base.PyNum Base.Outcome Model.Values Model.Vocab Model.Types Model.Expected Model.Conv.
Require Import Gen.GenScalars Gen.GenGates Gen.GenExcept Lemmas.AgreeLemmas Lemmas.AgreeThm.
Import ListNotations.

(* children of a homogeneous / positional product: the positions whose element is
   rejected on its own, each with the tree the element type reports for it alone *)
Fixpoint children_spec (col : pyval -> cres) (i : nat) (xs : list pyval) : list (ekey * enode) :=
  match xs with
  | [] => []
  | x :: r => match col x with
              | CTree t => (KIdx i, t) :: children_spec col (S i) r
              | _ => children_spec col (S i) r
              end
  end.

Lemma seq_collect_children e xs : agrees e -> forall i vals ch,
  seq_collect (tc e) (ce e) i xs = ROk (vals, ch) -> ch = children_spec (ce e) i xs.
Proof.
  intros A. induction xs as [|x xs IH]; intros i vals ch H; simpl in *.
  - now inversion H.
  - unfold convert_with in H.
    destruct (agree_cases _ _ (A x)) as [(y & H1 & H2)|(H1 & n & H2)]; rewrite H1 in H; rewrite H2; cbv beta in H.
    + destruct (seq_collect (tc e) (ce e) (S i) xs) as [[vals' ch']|z] eqn:E; [|discriminate].
      inversion H; subst. eapply IH; eauto.
    + rewrite H2 in H. destruct (seq_collect (tc e) (ce e) (S i) xs) as [[vals' ch']|z] eqn:E; [|discriminate].
      inversion H; subst. f_equal. eapply IH; eauto.
Qed.

Theorem seq_children c e v exp ch act mi ex :
  agrees e -> ce (TSeq c e) v = CTree (EProduct exp ch act mi ex) ->
  ch = children_spec (ce e) 0 (items_of v) /\ act = v /\ mi = [] /\ ex = [].
Proof.
  intros A H. simpl in H. destruct (gate_sequence (kind_of v)); [|discriminate].
  destruct (seq_collect (tc e) (ce e) 0 (items_of v)) as [[vals ch']|z] eqn:E; [|discriminate].
  destruct ch' as [|c0 ch'].
  - unfold guard_c in H. destruct (raw_unit (seq_ctor c vals)); [discriminate|]. destruct (caught _ _); discriminate.
  - inversion H; subst. repeat split. eapply seq_collect_children; eauto.
Qed.

Fixpoint zip_children_spec (i : nat) (ts : list ty) (xs : list pyval) : list (ekey * enode) :=
  match ts, xs with
  | t :: r, x :: s => match ce t x with
                      | CTree e => (KIdx i, e) :: zip_children_spec (S i) r s
                      | _ => zip_children_spec (S i) r s
                      end
  | _, _ => []
  end.

Lemma tuple_collect_children ts : forall i xs ch,
  tuple_collect ce i ts xs = ROk ch -> ch = zip_children_spec i ts xs.
Proof.
  induction ts as [|t ts IH]; intros i xs ch H; simpl in *; [now inversion H|].
  destruct xs as [|x xs]; [now inversion H|].
  destruct (ce t x) as [|e|z]; try discriminate.
  - now apply IH.
  - destruct (tuple_collect ce (S i) ts xs) eqn:E; [|discriminate]. inversion H; subst. f_equal. now apply IH.
Qed.

Theorem tuple_children es v exp ch act mi ex :
  ce (TTuple es) v = CTree (EProduct exp ch act mi ex) ->
  ch = zip_children_spec 0 es (items_of v) /\ act = v /\ mi = [] /\ ex = [].
Proof.
  intros H. simpl in H.
  destruct (gate_sequence (kind_of v) && Nat.eqb (List.length (items_of v)) (List.length es)); [|discriminate].
  destruct (tuple_collect ce 0 es (items_of v)) as [ch'|z] eqn:E; [|discriminate].
  destruct ch'; [discriminate|]. inversion H; subst. repeat split. now apply tuple_collect_children.
Qed.

(* a union node has one child per member, in declaration order, each the member's own tree *)
Lemma union_collect_children v ms : Forall agrees ms -> forall cs,
  union_collect tc ce v ms = ROk (Some cs) -> Forall2 (fun m c => ce m v = CTree c) ms cs.
Proof.
  induction 1 as [|m ms A _ IH]; intros cs H; simpl in H.
  - inversion H. constructor.
  - destruct (agree_cases _ _ (A v)) as [(y & H1 & H2)|(H1 & n & H2)]; rewrite H1 in H; [discriminate|].
    rewrite H2 in H. destruct (union_collect tc ce v ms) as [[rest|]|z] eqn:E; try discriminate.
    inversion H; subst. constructor; auto.
Qed.

Theorem union_children ms v cs :
  Forall agrees ms -> ce (TUnion ms) v = CTree (ESum cs) -> Forall2 (fun m c => ce m v = CTree c) ms cs.
Proof.
  intros A H. simpl in H.
  destruct (union_collect tc ce v ms) as [[cs'|]|z] eqn:E; try discriminate.
  inversion H; subst. now apply union_collect_children.
Qed.

(* struct-literal types: extra = the unknown keys, missing = the fields with no key *)
Fixpoint lit_extra_spec (fs : list (string * ty)) (kvs : list (pyval * pyval)) : list pyval :=
  match kvs with
  | [] => []
  | (k, _) :: r => if existsb (fun f => key_is k (fst f)) fs then lit_extra_spec fs r else k :: lit_extra_spec fs r
  end.

Lemma with_key_none_iff {C} k (g : ty -> C) fs :
  with_key k g fs = None <-> existsb (fun f : string * ty => key_is k (fst f)) fs = false.
Proof.
  induction fs as [|[n t] r IH]; simpl; [tauto|].
  destruct (key_is k n); simpl; [split; discriminate|exact IH].
Qed.

Lemma lit_collect_extra fs kvs ch ex :
  lit_collect ce fs kvs = ROk (ch, ex) -> ex = lit_extra_spec fs kvs.
Proof.
  revert ch ex. induction kvs as [|[k x] kvs IH]; intros ch ex H; simpl in *; [now inversion H|].
  destruct (with_key k (fun t => ce t x) fs) as [r|] eqn:W.
  - assert (E : existsb (fun f : string * ty => key_is k (fst f)) fs = true).
    { destruct (existsb _ fs) eqn:E'; [reflexivity|]. apply (proj2 (with_key_none_iff k (fun t => ce t x) fs)) in E'. rewrite E' in W. discriminate. }
    rewrite E. destruct r as [|e|z]; try discriminate.
    + eapply IH; eauto.
    + destruct (lit_collect ce fs kvs) as [[ch' ex']|z] eqn:L; [|discriminate]. inversion H; subst. eapply IH; eauto.
  - apply (proj1 (with_key_none_iff k (fun t => ce t x) fs)) in W. rewrite W.
    destruct (lit_collect ce fs kvs) as [[ch' ex']|z] eqn:L; [|discriminate]. inversion H; subst. f_equal. eapply IH; eauto.
Qed.

Theorem struct_missing_extra fs v exp ch act mi ex :
  ce (TStruct fs) v = CTree (EProduct exp ch act mi ex) ->
  ex = lit_extra_spec fs (pairs_of v) /\ mi = lit_missing fs (pairs_of v) /\ act = v.
Proof.
  intros H. simpl in H. destruct (gate_mapping (kind_of v)); [|discriminate].
  destruct (lit_collect ce fs (pairs_of v)) as [[ch' ex']|z] eqn:L; [|discriminate].
  apply lit_collect_extra in L.
  destruct ch', ex', (lit_missing fs (pairs_of v)) eqn:M; try discriminate; inversion H; subst; repeat split; auto.
Qed.

(* leaves record the offending value itself *)
Ltac crush H :=
  unfold guard_c, wrong, wrong_cause in H;
  repeat (match type of H with
          | context [match ?x with _ => _ end] => destruct x
          | context [if ?x then _ else _] => destruct x
          end; try discriminate);
  try (inversion H; reflexivity).

Theorem leaf_records_value t v e a c i :
  (match t with TEnum _ _ | TTagged _ _ _ | TCond _ _ | TUnion _ => False | _ => True end) ->
  ce t v = CTree (EWrongType e a c i) -> a = v.
Proof.
  intros Hh H. destruct t; try contradiction; simpl in H; crush H.
Qed.

(* ------------------------------------------------------------------ dataclasses: extra and missing on the mapping path *)

(* the unknown keys, in the order of the data (none when extras are allowed) *)
Fixpoint class_extra_spec (fs : list (fld * ty)) (ae : bool) (kvs : list (pyval * pyval)) : list pyval :=
  match kvs with
  | [] => []
  | (k, _) :: r =>
      match find_field k fs with
      | None => if ae then class_extra_spec fs ae r else k :: class_extra_spec fs ae r
      | Some _ => class_extra_spec fs ae r
      end
  end.

(* some key of the data binds to the field called n *)
Definition name_bound (fs : list (fld * ty)) (kvs : list (pyval * pyval)) (n : string) : bool :=
  existsb (fun kv => match find_field (fst kv) fs with Some (g, _) => String.eqb n (f_name g) | None => false end) kvs.

(* the required fields no key binds to, in declaration order *)
Definition class_missing_spec (fs : list (fld * ty)) (kvs : list (pyval * pyval)) : list string :=
  map f_name (filter (fun f => f_init f && negb (name_bound fs kvs (f_name f)) && negb (has_default f)) (map fst fs)).

Lemma smem_eqb_true n m seen : String.eqb n m = true -> smem m seen = true -> smem n seen = true.
Proof. intros E. apply String.eqb_eq in E. now subst. Qed.

Lemma struct_collect_spec fs ae kvs : forall vals ch ex seen vals' ch' ex' seen',
  struct_collect tc ce fs ae kvs vals ch ex seen = ROk (vals', ch', ex', seen') ->
  ex' = (ex ++ class_extra_spec fs ae kvs)%list /\
  (forall n, smem n seen' = smem n seen || name_bound fs kvs n).
Proof.
  induction kvs as [|[k x] kvs IH]; intros vals ch ex seen vals' ch' ex' seen' H; simpl in H.
  - inversion H; subst. split; [now rewrite app_nil_r|]. intros n. unfold name_bound. simpl. now rewrite orb_false_r.
  - rewrite with_field_find in H. unfold name_bound. simpl. destruct (find_field k fs) as [[f t]|] eqn:F.
    + destruct (smem (f_name f) seen) eqn:Sm.
      * destruct (IH _ _ _ _ _ _ _ _ H) as [E1 E2]. split; [exact E1|]. intros n. rewrite E2. unfold name_bound.
        destruct (String.eqb n (f_name f)) eqn:En; simpl; [|reflexivity].
        now rewrite (smem_eqb_true n (f_name f) seen En Sm).
      * destruct (convert_elem tc ce t x) as [y|e|z]; try discriminate;
          destruct (IH _ _ _ _ _ _ _ _ H) as [E1 E2]; (split; [exact E1|]); intros n; rewrite E2; unfold name_bound; simpl;
          destruct (String.eqb n (f_name f)); simpl; try reflexivity; now rewrite orb_true_r.
    + destruct (IH _ _ _ _ _ _ _ _ H) as [E1 E2]. split.
      * rewrite E1. destruct ae; [reflexivity|]. now rewrite <- app_assoc.
      * intros n. rewrite E2. reflexivity.
Qed.

Theorem class_missing_extra h fs v exp ch act mi ex :
  pane_seq_gate_collect (kind_of v) = false ->
  ce (TClass h fs) v = CTree (EProduct exp ch act mi ex) ->
  ex = class_extra_spec fs (c_allow_extra h) (pairs_of v) /\ mi = class_missing_spec fs (pairs_of v) /\ act = v.
Proof.
  intros G H. simpl in H. rewrite G in H.
  destruct (pane_map_gate_collect (kind_of v)); [|discriminate].
  destruct (has_fmt FStruct h); [|discriminate].
  destruct (struct_collect tc ce fs (c_allow_extra h) (pairs_of v) [] [] [] []) as [[[[vals' ch'] ex'] seen']|z] eqn:L; [|discriminate].
  destruct (struct_collect_spec _ _ _ _ _ _ _ _ _ _ _ L) as [E1 E2]. simpl in E1.
  assert (M : missing_required (map fst fs) seen' = class_missing_spec fs (pairs_of v)).
  { unfold missing_required, class_missing_spec. f_equal. apply filter_ext. intros f. now rewrite E2. }
  rewrite M in H.
  destruct ch', ex', (class_missing_spec fs (pairs_of v)) eqn:Ms; try (inversion H; subst; repeat split; auto; fail).
  unfold guard_c in H. destruct (construct h (map fst fs) vals') as [[u|e]|]; simpl in H; try discriminate;
    repeat (match type of H with context [if ?c then _ else _] => destruct c end); discriminate.
Qed.

(* ---------------------------------------------------------------- dataclass, sequence layout *)
(* The positions of the INPUT are paired with the fields the constructor binds (init=True), in declaration order -- a field
   kept out of the constructor takes no position -- and a position is a child exactly when its element is rejected by the
   field's type on its own, the child being the tree the element's conversion alone reports. *)
Fixpoint pos_children_spec (i : nat) (ts : list ty) (xs : list pyval) : list (ekey * enode) :=
  match ts, xs with
  | t :: r, x :: s => match convert t x with
                      | CErr e => (KIdx i, e) :: pos_children_spec (S i) r s
                      | _ => pos_children_spec (S i) r s
                      end
  | _, _ => []
  end.

Definition positional_types (fs : list (fld * ty)) : list ty := map snd (filter (fun ft => f_init (fst ft)) fs).

Lemma tuple_cls_collect_children fs : forall i xs vals ch,
  tuple_cls_collect tc ce i fs xs = ROk (vals, ch) -> ch = pos_children_spec i (positional_types fs) xs.
Proof.
  unfold positional_types.
  induction fs as [|[f t] fs IH]; intros i xs vals ch H; simpl in *; [now inversion H|].
  destruct xs as [|x xs].
  - inversion H; subst. destruct (f_init f); simpl; [reflexivity|]. destruct (map snd _); reflexivity.
  - destruct (f_init f) eqn:Fi; simpl.
    + unfold convert_elem in H. fold (convert t x) in H. destruct (convert t x) as [y|e|z] eqn:C; try discriminate.
      * destruct (tuple_cls_collect tc ce (S i) fs xs) as [[vals' ch']|z] eqn:T; [|discriminate].
        inversion H; subst. eapply IH; eauto.
      * destruct (tuple_cls_collect tc ce (S i) fs xs) as [[vals' ch']|z] eqn:T; [|discriminate].
        inversion H; subst. f_equal. eapply IH; eauto.
    + eapply IH; eauto.
Qed.

Theorem class_positional_children h fs v exp ch act mi ex :
  pane_seq_gate_collect (kind_of v) = true ->
  ce (TClass h fs) v = CTree (EProduct exp ch act mi ex) ->
  ch = pos_children_spec 0 (positional_types fs) (items_of v) /\ ch <> [] /\ act = v /\ mi = [] /\ ex = [].
Proof.
  intros G H. cbn [ce] in H. rewrite G in H.
  destruct (has_fmt FTuple h); [|discriminate].
  destruct (pos_args (map fst fs)) as [mn mx].
  destruct ((mn <=? List.length (items_of v))%nat && (List.length (items_of v) <=? mx)%nat); [|discriminate].
  destruct (tuple_cls_collect tc ce 0 fs (items_of v)) as [[vals ch']|z] eqn:T; [|discriminate].
  destruct ch' as [|c ch'].
  - destruct (construct h (map fst fs) vals) as [r|]; unfold guard_c in H.
    + destruct (raw_unit r) as [|e]; [discriminate|]. destruct (caught S_post_tuple_collect e); discriminate.
    + destruct (caught S_post_tuple_collect ETypeError); discriminate.
  - inversion H; subst. split; [now apply (tuple_cls_collect_children fs 0 _ vals)|]. repeat split. discriminate.
Qed.
