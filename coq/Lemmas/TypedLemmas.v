(* C01: whatever the fast pass returns is the deep, exactly-typed image for the type. *)
From Coq Require Import ZArith List Bool String Lia.
Require Import Base.PyNum Base.Outcome Model.Values Model.Vocab Model.Types Model.Expected Model.Conv.
Require Import Gen.GenScalars Gen.GenGates Gen.GenExcept Lemmas.AgreeLemmas Lemmas.AgreeThm Lemmas.RoundTrip Lemmas.StrictLemmas.
Import ListNotations.

(* the independent description of "x is a typed value of T" *)
Fixpoint typed (t : ty) (x : pyval) {struct t} : Prop :=
  match t with
  | TAny => True
  | TNone => x = VNone
  | TScalar s => kind_of x = scalar_kind s
  | TSeq c e =>
      match c, x with
      | SeqList, VList l | SeqTuple, VTuple l | SeqSet, VSet l | SeqFrozenSet, VFrozenSet l => Forall (typed e) l
      | _, _ => False
      end
  | TTuple es =>
      exists l, x = VTuple l /\
        (fix go (ts : list ty) (xs : list pyval) : Prop :=
           match ts, xs with
           | [], [] => True
           | t' :: r, y :: s => typed t' y /\ go r s
           | _, _ => False
           end) es l
  | TDict kt vt => exists kvs, x = VDict kvs /\ Forall (fun kv => typed kt (fst kv) /\ typed vt (snd kv)) kvs
  | TStruct fs =>
      exists kvs, x = VDict kvs /\
        Forall (fun kv => (fix find (l : list (string * ty)) : Prop :=
                             match l with
                             | [] => False
                             | (n, t') :: r => (key_is (fst kv) n = true /\ typed t' (snd kv)) \/ find r
                             end) fs) kvs
  | TUnion ms => (fix go (l : list ty) : Prop := match l with [] => False | m :: r => typed m x \/ go r end) ms
  | TLiteral vals => existsb (lit_match x) vals = true
  | TEnum n members => exists m v, x = VEnum n m v /\ In (m, v) members
  | TClass h fs =>
      exists fields vals, x = VInst (c_name h) fields (map fst vals) /\
        fill_defaults (map fst fs) vals = Some fields /\
        Forall (fun nv => (fix find (l : list (fld * ty)) : Prop :=
                             match l with
                             | [] => False
                             | (f, t') :: r => (f_name f = fst nv /\ typed t' (snd nv)) \/ find r
                             end) fs) vals
  | TCond inner c => typed inner x /\ eval_cond c x = ROk true
  | TTagged _ _ vs => (fix go (l : list (pyval * ty)) : Prop := match l with [] => False | (_, t') :: r => typed t' x \/ go r end) vs
  end.

Definition images_typed (t : ty) : Prop := forall v x, tc t v = Ok x -> typed t x.

Lemma map_out_typed e xs ys : images_typed e -> map_out (tc e) xs = Ok ys -> Forall (typed e) ys.
Proof.
  intros I H. apply map_out_ok_forall2 in H. induction H as [|v y xs ys Hv _ IH]; constructor; eauto.
Qed.

Lemma forall_dedup (P : pyval -> Prop) l : Forall P l -> Forall P (dedup l).
Proof.
  induction 1 as [|x l Hx _ IH]; simpl; constructor; auto.
  apply Forall_forall. intros y Hy. apply filter_In in Hy as [Hy _]. rewrite Forall_forall in IH. now apply IH.
Qed.

Lemma zip_out_typed es : Forall images_typed es -> forall xs ys,
  List.length xs = List.length es -> zip_out tc es xs = Ok ys ->
  (fix go (ts : list ty) (zs : list pyval) : Prop :=
     match ts, zs with [], [] => True | t' :: r, y :: s => typed t' y /\ go r s | _, _ => False end) es ys.
Proof.
  induction 1 as [|t es I _ IH]; intros xs ys L H.
  - destruct xs; simpl in *; inversion H; exact Logic.I.
  - destruct xs as [|x xs]; simpl in L; [discriminate|]. simpl in H.
    destruct (tc t x) as [y| |e] eqn:E; try discriminate.
    destruct (zip_out tc es xs) as [ys'| |e] eqn:Z; try discriminate. inversion H; subst.
    split; [eapply I; eauto|]. eapply IH; eauto.
Qed.

(* dict construction keeps only converted keys / values *)
Lemma assoc_set_forall (P : pyval * pyval -> Prop) k v d :
  P (k, v) -> (forall k', P (k', v) -> True) -> Forall P d ->
  (forall k' v', In (k', v') d -> P (k', v)) ->
  Forall P (dict_set k v d).
Proof.
  intros Pk _ F Hrep. unfold dict_set. induction d as [|[k' v'] r IH]; simpl.
  - constructor; [exact Pk|constructor].
  - inversion F as [|? ? Ph Pr]; subst. destruct (py_eqb k k').
    + constructor; [apply (Hrep k' v'); now left|exact Pr].
    + constructor; [exact Ph|]. apply IH; [exact Pr|]. intros a b Hin. apply (Hrep a b). now right.
Qed.

Lemma dict_ctor_typed kt vt kvs d :
  Forall (fun kv => typed kt (fst kv) /\ typed vt (snd kv)) kvs -> dict_ctor kvs = ROk d ->
  exists out, d = VDict out /\ Forall (fun kv => typed kt (fst kv) /\ typed vt (snd kv)) out.
Proof.
  unfold dict_ctor. destruct (forallb _ kvs); [|discriminate]. intros F H. inversion H; subst. eexists; split; [reflexivity|].
  assert (G : forall acc, Forall (fun kv => typed kt (fst kv) /\ typed vt (snd kv)) acc ->
            Forall (fun kv => typed kt (fst kv) /\ typed vt (snd kv)) (fold_left (fun d kv => dict_set (fst kv) (snd kv) d) kvs acc)).
  { clear H. induction F as [|[k v] r [Hk Hv] _ IH]; intros acc Ha; simpl; [exact Ha|].
    apply IH. simpl in *. apply assoc_set_forall; auto.
    intros k' v' Hin. rewrite Forall_forall in Ha. destruct (Ha _ Hin) as [Hk' _]. simpl in *. now split. }
  apply G. constructor.
Qed.

Section LitTyped.
  Variable fs : list (string * ty).
  Hypothesis Hfs : Forall (fun x => images_typed (snd x)) fs.

  Lemma with_key_typed k x y :
    with_key k (fun t => tc t x) fs = Some (Ok y) ->
    (fix find (l : list (string * ty)) : Prop :=
       match l with [] => False | (n, t') :: r => (key_is k n = true /\ typed t' y) \/ find r end) fs.
  Proof.
    clear -Hfs. induction Hfs as [|[n t] r I Hr IH]; simpl; [discriminate|].
    destruct (key_is k n) eqn:E.
    - intros H. injection H as H'. left. split; [reflexivity|]. simpl in I. exact (I _ _ H').
    - intros H. right. apply IH; assumption.
  Qed.

  Lemma lit_loop_typed kvs d :
    lit_try_loop tc fs kvs = Ok d ->
    Forall (fun kv => (fix find (l : list (string * ty)) : Prop :=
                         match l with [] => False | (n, t') :: r => (key_is (fst kv) n = true /\ typed t' (snd kv)) \/ find r end) fs) d.
  Proof.
    revert d. induction kvs as [|[k x] kvs IH]; intros d H; simpl in H.
    - inversion H. constructor.
    - destruct (with_key k (fun t => tc t x) fs) as [[y| |e]|] eqn:W; try discriminate.
      destruct (lit_try_loop tc fs kvs) as [rest| |e] eqn:L; try discriminate. inversion H; subst.
      constructor; [simpl; now apply with_key_typed with (x := x)|now apply IH].
  Qed.
End LitTyped.

Section ClassTyped.
  Variable fs : list (fld * ty).
  Hypothesis Hfs : Forall (fun x => images_typed (snd x)) fs.

  Definition val_typed (nv : string * pyval) : Prop :=
    (fix find (l : list (fld * ty)) : Prop :=
       match l with [] => False | (f, t') :: r => (f_name f = fst nv /\ typed t' (snd nv)) \/ find r end) fs.

  Lemma in_find f t n y : In (f, t) fs -> f_name f = n -> typed t y -> val_typed (n, y).
  Proof.
    unfold val_typed. clear Hfs. induction fs as [|[g u] r IH]; simpl; [tauto|].
    intros [E|Hin] Hn Ht; [inversion E; subst; left; now split|right; now apply IH].
  Qed.

  Lemma struct_loop_typed ae kvs : forall vals out,
    Forall val_typed vals -> struct_try_loop tc fs ae kvs vals = Ok out -> Forall val_typed out.
  Proof.
    induction kvs as [|[k x] kvs IH]; intros vals out Hv H; simpl in H.
    - now inversion H; subst.
    - rewrite with_field_find in H. destruct (find_field k fs) as [[f t]|] eqn:F.
      + destruct (has_value (f_name f) vals); [discriminate|].
        destruct (tc t x) as [y| |e] eqn:E; try discriminate.
        eapply IH; [|exact H]. apply Forall_app. split; [exact Hv|]. constructor; [|constructor].
        pose proof (find_field_in _ _ _ _ F) as Hin. rewrite Forall_forall in Hfs.
        eapply in_find; eauto. eapply (Hfs _ Hin); eauto.
      + destruct ae; [eapply IH; eauto|discriminate].
  Qed.
End ClassTyped.

Lemma tuple_loop_typed (fs0 fs : list (fld * ty)) : Forall (fun x => images_typed (snd x)) fs ->
  (forall f t, In (f, t) fs -> In (f, t) fs0) -> forall xs vals,
  tuple_try_loop tc fs xs = Ok vals -> Forall (val_typed fs0) vals.
Proof.
  induction 1 as [|[f t] fs I _ IH]; intros Sub xs vals H; simpl in H.
  - inversion H. constructor.
  - destruct xs as [|x xs]; [inversion H; constructor|].
    destruct (f_init f).
    + destruct (tc t x) as [y| |e] eqn:E; try discriminate.
      destruct (tuple_try_loop tc fs xs) as [rest| |e] eqn:L; try discriminate. inversion H; subst.
      constructor.
      * eapply in_find; [apply Sub; now left|reflexivity|eapply I; eauto].
      * eapply IH; eauto. intros g u Hin. apply Sub. now right.
    + eapply IH; eauto. intros g u Hin. apply Sub. now right.
Qed.

Lemma construct_typed h (fs : list (fld * ty)) vals r x :
  construct h (map fst fs) vals = Some r -> guard S_post_struct_try r = Ok x \/ guard S_post_tuple_try r = Ok x ->
  exists fields, x = VInst (c_name h) fields (map fst vals) /\ fill_defaults (map fst fs) vals = Some fields.
Proof.
  unfold construct. destruct (fill_defaults (map fst fs) vals) as [fields|]; [|discriminate].
  destruct (run_hook (c_hook h) fields); intros H; inversion H; subst; unfold guard.
  - intros [G|G]; inversion G; subst; eexists; split; reflexivity.
  - intros [G|G]; [destruct (caught S_post_struct_try e)|destruct (caught S_post_tuple_try e)]; discriminate.
Qed.

Lemma first_ok_typed v ms x :
  Forall images_typed ms -> first_ok (fun m => tc m v) ms = Ok x ->
  (fix go (l : list ty) : Prop := match l with [] => False | m :: r => typed m x \/ go r end) ms.
Proof.
  induction 1 as [|m ms I _ IH]; simpl; [discriminate|].
  destruct (tc m v) as [y| |e] eqn:E; try discriminate.
  - intros H; inversion H; subst. left. eapply I; eauto.
  - intros H. right. now apply IH.
Qed.

Lemma enum_lookup_typed n members x y : enum_lookup n members x = ROk y -> exists m v, y = VEnum n m v /\ In (m, v) members.
Proof.
  unfold enum_lookup. destruct (hashable x); [|discriminate].
  destruct (find (fun m => lit_match x (snd m)) members) as [[mn mv]|] eqn:F; [|discriminate].
  intros H; inversion H; subst. apply find_some in F as [Hin _]. eauto.
Qed.

(* the member found for a converted value has a value of the same kind (1.0 is not the member valued 1) *)
Lemma enum_lookup_same_kind n members x mname v :
  enum_lookup n members x = ROk (VEnum n mname v) -> In (mname, v) members /\ kind_of x = kind_of v /\ py_eqb x v = true.
Proof.
  unfold enum_lookup. destruct (hashable x); [|discriminate].
  destruct (find (fun m => lit_match x (snd m)) members) as [[mn mv]|] eqn:F; [|discriminate].
  intros H; inversion H; subst. apply find_some in F as [Hin M]. simpl in M.
  split; [assumption|]. split; [now apply lit_match_kind|now apply lit_match_eqb].
Qed.

Theorem images_are_typed : forall t, images_typed t.
Proof.
  induction t as [| |s|c e IHe|es IHes|kt vt IHk IHv|fs IHfs|ms IHms|vals|n members|h fs IHfs|inner c IHi|tag lay vs IHvs] using ty_ind';
    intros v x H.
  - exact I.
  - simpl in H. destruct v; inversion H; reflexivity.
  - simpl. exact (scalar_result_kind s v x H).
  - (* sequences *)
    simpl in H. destruct (gate_sequence (kind_of v)); [|discriminate].
    destruct (map_out (tc e) (items_of v)) as [ys| |z] eqn:M; try discriminate; try (destruct (caught _ _); discriminate).
    pose proof (map_out_typed e _ _ IHe M) as T.
    unfold guard in H. destruct c; simpl in H.
    + inversion H; subst. exact T.
    + inversion H; subst. exact T.
    + destruct (forallb hashable ys); simpl in H; [inversion H; subst; simpl; now apply forall_dedup|try discriminate; destruct (caught _ _); discriminate].
    + destruct (forallb hashable ys); simpl in H; [inversion H; subst; simpl; now apply forall_dedup|try discriminate; destruct (caught _ _); discriminate].
  - (* fixed tuples *)
    simpl in H. destruct (gate_sequence (kind_of v)); [|discriminate]. simpl in H.
    destruct (Nat.eqb (List.length (items_of v)) (List.length es)) eqn:L; [|discriminate]. apply Nat.eqb_eq in L.
    destruct (zip_out tc es (items_of v)) as [ys| |z] eqn:Z; try discriminate. inversion H; subst.
    simpl. exists ys. split; [reflexivity|]. eapply zip_out_typed; eauto.
  - (* mappings *)
    simpl in H. destruct (gate_mapping (kind_of v)); [|discriminate].
    match type of H with context [map_out ?f ?l] => destruct (map_out f l) as [kvs| |z] eqn:M end;
      try discriminate; try (destruct (caught _ _); discriminate).
    unfold guard in H. destruct (dict_ctor kvs) as [d|z] eqn:D; [|try discriminate; destruct (caught _ _); discriminate]. inversion H; subst.
    assert (F : Forall (fun kv => typed kt (fst kv) /\ typed vt (snd kv)) kvs).
    { clear D. apply map_out_ok_forall2 in M. induction M as [|kv y l ys Hk _ IH]; constructor; [|exact IH].
      destruct (tc kt (fst kv)) as [k'| |z] eqn:E1; try discriminate.
      destruct (tc vt (snd kv)) as [v'| |z] eqn:E2; try discriminate. inversion Hk; subst. simpl. split; [eapply IHk|eapply IHv]; eauto. }
    simpl. destruct (dict_ctor_typed kt vt kvs x F D) as (out & -> & Fo). eauto.
  - (* struct literal types *)
    simpl in H. destruct (gate_mapping (kind_of v)); [|discriminate].
    destruct (lit_try_loop tc fs (pairs_of v)) as [d| |z] eqn:L; try discriminate.
    destruct (lit_missing fs (pairs_of v)); [|discriminate]. inversion H; subst.
    simpl. exists d. split; [reflexivity|]. now apply lit_loop_typed with (kvs := pairs_of v).
  - (* unions *) simpl in H. simpl. eapply first_ok_typed; eauto.
  - (* literals: the value itself *)
    simpl in H. destruct (existsb (lit_match v) vals) eqn:E; [|discriminate]. inversion H; subst. exact E.
  - (* enums: the member *)
    simpl in H. destruct (tc_enum_inner members v) as [y| |z]; try discriminate.
    unfold guard in H. destruct (enum_lookup n members y) as [m|z] eqn:E; [|try discriminate; destruct (caught _ _); discriminate].
    inversion H; subst. simpl. eapply enum_lookup_typed; eauto.
  - (* dataclasses *)
    simpl in H. destruct (pane_seq_gate_try (kind_of v)).
    + destruct (has_fmt FTuple h); [|discriminate].
      destruct (pos_args (map fst fs)) as [mn mx]. destruct (_ && _); [|discriminate].
      destruct (tuple_try_loop tc fs (items_of v)) as [vals0| |z] eqn:L; try discriminate.
      destruct (construct h (map fst fs) vals0) as [r|] eqn:C; [|unfold guard in H; try discriminate; destruct (caught _ _); discriminate].
      destruct (construct_typed h fs vals0 r x C (or_intror H)) as (fields & -> & Fd).
      simpl. exists fields, vals0. repeat split; auto.
      eapply (tuple_loop_typed fs fs); eauto.
    + destruct (pane_map_gate_try (kind_of v)); [|discriminate].
      destruct (has_fmt FStruct h); [|discriminate].
      destruct (struct_try_loop tc fs (c_allow_extra h) (pairs_of v) []) as [vals0| |z] eqn:L; try discriminate.
      destruct (construct h (map fst fs) vals0) as [r|] eqn:C; [|discriminate].
      destruct (construct_typed h fs vals0 r x C (or_introl H)) as (fields & -> & Fd).
      simpl. exists fields, vals0. repeat split; auto.
      eapply (struct_loop_typed fs IHfs); [|exact L]. constructor.
  - (* conditions *)
    simpl in H. destruct (tc inner v) as [y| |z] eqn:E; try discriminate.
    unfold guard in H. destruct (eval_cond c y) as [[|]|z] eqn:Ev; try discriminate; try (destruct (caught _ _); discriminate).
    inversion H; subst. simpl. split; [eapply IHi; eauto|exact Ev].
  - (* tagged unions: an instance of one of the variants *)
    simpl in H. destruct (gate_mapping (kind_of v)); [|discriminate].
    destruct (tag_extract tag lay (pairs_of v)) as [[tagv body]|]; [|discriminate].
    destruct (hashable tagv); [|unfold guard in H; try discriminate; destruct (caught _ _); discriminate].
    rewrite with_variant_find in H. destruct (find_variant tagv vs) as [t'|] eqn:F; [|unfold guard in H; try discriminate; destruct (caught _ _); discriminate].
    simpl. clear -IHvs F H. induction vs as [|[tv u] r IH]; simpl in *; [discriminate|].
    inversion IHvs as [|? ? Iu Ir]; subst. destruct (lit_match tagv tv).
    + inversion F; subst. left. eapply Iu; eauto.
    + right. now apply IH.
Qed.

(* ------------------------------------------------------------------ *)
(* acceptance rules, element-wise ("v denotes a member of T") *)

Lemma forall2_map_out_iff {A B} (f : A -> outcome B) l ys :
  map_out f l = Ok ys <-> Forall2 (fun a y => f a = Ok y) l ys.
Proof. split; [apply map_out_ok_forall2|apply forall2_map_out]. Qed.

Theorem accepts_none v x : tc TNone v = Ok x <-> v = VNone /\ x = VNone.
Proof.
  simpl. destruct v; split; intros H; try discriminate; try (destruct H; discriminate).
  - inversion H; auto.
  - destruct H as [_ ->]. reflexivity.
Qed.

Theorem accepts_literal vals v x :
  tc (TLiteral vals) v = Ok x <-> x = v /\ exists l, In l vals /\ kind_of v = kind_of l /\ py_eqb v l = true.
Proof.
  simpl. destruct (existsb (lit_match v) vals) eqn:E.
  - apply existsb_exists in E. destruct E as (l & Hin & Hl). split.
    + intros H; inversion H; subst. split; [reflexivity|]. exists l. split; [exact Hin|].
      split; [now apply lit_match_kind|now apply lit_match_eqb].
    + intros [-> _]; reflexivity.
  - split; [discriminate|]. intros [_ (l & Hin & Hk & Hl)].
    assert (existsb (lit_match v) vals = true).
    { apply existsb_exists. exists l. split; [exact Hin|]. unfold lit_match. rewrite Hk, Hl.
      destruct (kind_of l) as [| | | | | | | | | | | | | | |s|]; try reflexivity. destruct s; reflexivity. }
    congruence.
Qed.

(* List[T] / Sequence[T]: a real sequence whose elements are accepted one by one; the image keeps
   the order and has the target's container class *)
Theorem accepts_list e v x :
  tc (TSeq SeqList e) v = Ok x <->
  gate_sequence (kind_of v) = true /\ exists ys, x = VList ys /\ Forall2 (fun vi yi => tc e vi = Ok yi) (items_of v) ys.
Proof.
  destruct sites_total_holds as (_ & _ & Sq & _).
  simpl. destruct (gate_sequence (kind_of v)); [|split; [discriminate|intros [H _]; discriminate]].
  destruct (map_out (tc e) (items_of v)) as [ys| |z] eqn:M.
  - simpl. split.
    + intros H; inversion H; subst. split; [reflexivity|]. exists ys. split; [reflexivity|now apply forall2_map_out_iff].
    + intros [_ (ys' & -> & F)]. apply forall2_map_out_iff in F. congruence.
  - split; [discriminate|]. intros [_ (ys' & -> & F)]. apply forall2_map_out_iff in F. congruence.
  - rewrite ?(caught_all _ z Sq). split; [discriminate|]. intros [_ (ys' & -> & F)]. apply forall2_map_out_iff in F. congruence.
Qed.

Theorem accepts_vtuple e v x :
  tc (TSeq SeqTuple e) v = Ok x <->
  gate_sequence (kind_of v) = true /\ exists ys, x = VTuple ys /\ Forall2 (fun vi yi => tc e vi = Ok yi) (items_of v) ys.
Proof.
  destruct sites_total_holds as (_ & _ & Sq & _).
  simpl. destruct (gate_sequence (kind_of v)); [|split; [discriminate|intros [H _]; discriminate]].
  destruct (map_out (tc e) (items_of v)) as [ys| |z] eqn:M.
  - simpl. split.
    + intros H; inversion H; subst. split; [reflexivity|]. exists ys. split; [reflexivity|now apply forall2_map_out_iff].
    + intros [_ (ys' & -> & F)]. apply forall2_map_out_iff in F. congruence.
  - split; [discriminate|]. intros [_ (ys' & -> & F)]. apply forall2_map_out_iff in F. congruence.
  - rewrite ?(caught_all _ z Sq). split; [discriminate|]. intros [_ (ys' & -> & F)]. apply forall2_map_out_iff in F. congruence.
Qed.

(* a scalar target: an allowed kind (the strictness matrix) whose constructor does not raise *)
Theorem accepts_scalar s v x :
  tc (TScalar s) v = Ok x <-> strict_ok s (kind_of v) = true /\ scalar_ctor s v = ROk x.
Proof.
  destruct sites_total_holds as (Sc & _).
  simpl. rewrite scalar_table_strict. destruct (strict_ok s (kind_of v)); [|split; [discriminate|intros [H _]; discriminate]].
  unfold guard. destruct (scalar_ctor s v) as [y|z].
  - split; [intros H; inversion H; auto|intros [_ H]; inversion H; reflexivity].
  - rewrite ?(caught_all _ z Sc). split; [discriminate|intros [_ H]; discriminate].
Qed.
