(* C05 at any nesting of dataclasses.  [same_val] is equality of values up to the record of
   explicitly set fields of the dataclass instances inside them (what pane's == compares);
   [rt2_ty] closes the exact fragment [rt_ty] under lists, tuples, text-keyed mappings, plain
   dataclasses (either output form) and Optional[dataclass].  For every such type and every
   accepted input:  parse (serialise x) is [same_val] x. *)
From Coq Require Import ZArith List Bool String Lia.
Require Import Base.PyNum Base.Outcome Model.Values Model.Vocab Model.Types Model.Conv Model.Into.
Require Import Gen.GenScalars Gen.GenGates Gen.GenExcept Lemmas.AgreeThm Lemmas.RoundTrip Lemmas.ClassLemmas Lemmas.ClassRoundTrip Lemmas.TypedLemmas Lemmas.IOLemmas.
Import ListNotations.

Inductive same_val : pyval -> pyval -> Prop :=
| sv_refl x : same_val x x
| sv_list l m : Forall2 same_val l m -> same_val (VList l) (VList m)
| sv_tuple l m : Forall2 same_val l m -> same_val (VTuple l) (VTuple m)
| sv_dict l m : Forall2 (fun a b => fst a = fst b /\ same_val (snd a) (snd b)) l m -> same_val (VDict l) (VDict m)
| sv_inst c fs gs s s' : Forall2 (fun a b => fst a = fst b /\ same_val (snd a) (snd b)) fs gs ->
                         same_val (VInst c fs s) (VInst c gs s').

Lemma same_int b a z : same_val b a -> (b = VInt z <-> a = VInt z).
Proof. intros H. inversion H; subst; split; intros E; try discriminate; auto. Qed.

(* __post_init__ programs of the model look at integer fields only: they cannot tell related values apart *)
Lemma field_get_rel n xs xs' : rel_fields same_val xs xs' ->
  match field_get n xs, field_get n xs' with
  | Some a, Some b => same_val b a
  | None, None => True
  | _, _ => False
  end.
Proof.
  unfold field_get. induction 1 as [|[k a] [k' b] xs xs' [E Rab] _ IH]; simpl; [exact I|]. simpl in E, Rab. subst k'.
  destruct (String.eqb n k); [exact Rab|exact IH].
Qed.

Lemma same_hook : forall hk xs xs' u, run_hook hk xs = ROk u -> rel_fields same_val xs xs' -> exists u', run_hook hk xs' = ROk u'.
Proof.
  intros hk xs xs' u H Rl. destruct hk as [|f z|]; simpl in *; [exists tt; reflexivity| |discriminate].
  pose proof (field_get_rel f xs xs' Rl) as G.
  destruct (field_get f xs) as [a|], (field_get f xs') as [b|]; try tauto; eauto.
  destruct b as [| |y| | | | | | | | | | | | | |]; eauto.
  apply (same_int (VInt y) a y) in G. destruct G as [G _]. rewrite (G eq_refl) in H. rewrite H. eauto.
Qed.

Notation rt2_val := (rt_val same_val).
Definition rt2_at (t : ty) : Prop := forall v x, tc t v = Ok x -> rt2_val t x.

Inductive rt2_ty : ty -> Prop :=
| r2_base t : rt_ty t -> rt2_ty t
| r2_list e : rt2_ty e -> rt2_ty (TSeq SeqList e)
| r2_vtuple e : rt2_ty e -> rt2_ty (TSeq SeqTuple e)
| r2_tuple es : Forall rt2_ty es -> rt2_ty (TTuple es)
| r2_dict e : rt2_ty e -> rt2_ty (TDict (TScalar SStr) e)
| r2_set e : rt_ty e -> rt2_ty (TSeq SeqSet e)                 (* sets are written as lists and rebuilt *)
| r2_frozenset e : rt_ty e -> rt2_ty (TSeq SeqFrozenSet e)
| r2_class h fs :
    Forall (fun ft => rt2_ty (snd ft)) fs -> Forall base_shape fs -> NoDup (names fs) ->
    (c_out_tuple h = false /\ has_fmt FStruct h = true /\ NoDup (out_names fs) /\ Forall (reads_own_output fs) fs \/
     c_out_tuple h = true /\ has_fmt FTuple h = true /\ Forall (fun ft => f_kw_only (fst ft) = false) fs) ->
    rt2_ty (TClass h fs)
| r2_optional h fs : rt2_ty (TClass h fs) -> rt2_ty (TUnion [TClass h fs; TNone]).

Lemma base_rt2 t : rt_ty t -> rt2_at t.
Proof. intros R v x H. destruct (roundtrip_core t v x R H) as (d & I & T). exists d, x. repeat split; auto. constructor. Qed.

Lemma rt_not_any t : rt_ty t -> is_any_ty t = false.
Proof. destruct 1; reflexivity. Qed.
Lemma rt2_not_any t : rt2_ty t -> is_any_ty t = false.
Proof. destruct 1; try reflexivity. now apply rt_not_any. Qed.

Lemma seq_transport2 e xs0 xs :
  rt2_at e -> map_out (tc e) xs0 = Ok xs ->
  exists ds xs', map_out (into_data e) xs = Ok ds /\ map_out (tc e) ds = Ok xs' /\ Forall2 same_val xs' xs.
Proof.
  intros R H. apply map_out_ok_forall2 in H.
  induction H as [|v x xs0 xs Hv _ IH]; simpl.
  - exists [], []. repeat split; constructor.
  - destruct (R v x Hv) as (d & x' & I1 & T1 & S1). destruct IH as (ds & xs' & M1 & N1 & S2).
    exists (d :: ds), (x' :: xs'). rewrite I1, M1. split; [reflexivity|]. simpl. rewrite T1, N1. split; [reflexivity|]. now constructor.
Qed.

Lemma tuple_transport2 es : Forall rt2_at es -> forall vs xs,
  List.length vs = List.length es -> zip_out tc es vs = Ok xs ->
  exists ds xs', zip_out into_data es xs = Ok ds /\ List.length ds = List.length es /\ zip_out tc es ds = Ok xs' /\ Forall2 same_val xs' xs.
Proof.
  induction 1 as [|t es R _ IH]; intros vs xs L H.
  - destruct vs; simpl in *; inversion H; exists [], []; repeat split; constructor.
  - destruct vs as [|v vs]; simpl in L; [discriminate|]. simpl in H.
    destruct (tc t v) as [x| |e] eqn:E; try discriminate.
    destruct (zip_out tc es vs) as [xs0| |e] eqn:Z; try discriminate. inversion H; subst.
    destruct (R v x E) as (d & x' & I1 & T1 & S1).
    destruct (IH vs xs0 (eq_add_S _ _ L) Z) as (ds & xs' & M1 & L1 & N1 & S2).
    exists (d :: ds), (x' :: xs'). simpl. rewrite I1, M1, T1, N1, L1. repeat split; auto.
Qed.

Lemma forall2_flip {A B} (P : A -> B -> Prop) l m : Forall2 P l m -> Forall2 (fun b a => P a b) m l.
Proof. induction 1; constructor; auto. Qed.

(* converting serialised pairs of a text-keyed mapping gives the re-read pairs *)
Lemma dict_pairs_again2 e (l' ld : list (string * pyval)) :
  Forall2 (fun nv nd => fst nd = fst nv /\ tc e (snd nd) = Ok (snd nv)) l' ld ->
  map_out (dict_conv e) (map strkey ld) = Ok (map strkey l').
Proof. exact (dict_pairs_again e l' ld). Qed.

(* ------------------------------------------------------------------ sets: set(iterable) is idempotent *)

Fixpoint distinct (l : list pyval) : Prop :=
  match l with [] => True | x :: r => Forall (fun y => py_eqb y x = false) r /\ distinct r end.

Lemma filter_distinct p l : distinct l -> distinct (filter p l).
Proof.
  induction l as [|x l IH]; simpl; [tauto|]. intros [F D]. destruct (p x); simpl; [|auto].
  split; [|auto]. clear -F. induction F as [|y l Hy _ IH]; simpl; [constructor|]. destruct (p y); [constructor|]; auto.
Qed.

Lemma dedup_is_distinct l : distinct (dedup l).
Proof.
  induction l as [|x l IH]; simpl; [exact I|]. split.
  - apply Forall_forall. intros y Hy. apply filter_In in Hy. destruct Hy as [_ Hy]. now destruct (py_eqb y x).
  - now apply filter_distinct.
Qed.

Lemma dedup_of_distinct l : distinct l -> dedup l = l.
Proof.
  induction l as [|x l IH]; simpl; [reflexivity|]. intros [F D]. rewrite (IH D). f_equal.
  clear -F. induction F as [|y l Hy _ IH]; simpl; [reflexivity|]. now rewrite Hy, IH.
Qed.

Lemma dedup_idem l : dedup (dedup l) = dedup l.
Proof. apply dedup_of_distinct, dedup_is_distinct. Qed.

Lemma dedup_incl l y : In y (dedup l) -> In y l.
Proof.
  revert y. induction l as [|x l IH]; simpl; [tauto|]. intros y [->|Hy]; [now left|].
  apply filter_In in Hy. right. apply IH. tauto.
Qed.

Lemma hashable_dedup l : forallb hashable l = true -> forallb hashable (dedup l) = true.
Proof.
  rewrite !forallb_forall. intros H y Hy. apply H. now apply dedup_incl.
Qed.

Lemma images_transport e l : rt_ty e -> Forall (fun x => exists v, tc e v = Ok x) l ->
  exists ds, map_out (into_data e) l = Ok ds /\ map_out (tc e) ds = Ok l.
Proof.
  intros R. induction 1 as [|x l (v & E) _ (ds & M & N)]; simpl; [exists []; auto|].
  destruct (roundtrip_core e v x R E) as (d & I & T). exists (d :: ds). rewrite I, M. split; [reflexivity|]. simpl. now rewrite T, N.
Qed.

Lemma map_out_images e vs xs : map_out (tc e) vs = Ok xs -> Forall (fun x => exists v, tc e v = Ok x) xs.
Proof. intros H. apply map_out_ok_forall2 in H. induction H; constructor; eauto. Qed.

Lemma set_roundtrip c e : rt_ty e -> (c = SeqSet \/ c = SeqFrozenSet) -> rt2_at (TSeq c e).
Proof.
  intros R Hc v x H. simpl in H.
  destruct (gate_sequence (kind_of v)) eqn:G; [|discriminate].
  destruct (map_out (tc e) (items_of v)) as [xs| |z] eqn:M; try discriminate; try (destruct (caught _ _); discriminate).
  unfold guard in H.
  assert (Hh : forallb hashable xs = true /\ x = match c with SeqSet => VSet (dedup xs) | _ => VFrozenSet (dedup xs) end).
  { destruct Hc; subst c; simpl in H; destruct (forallb hashable xs); try (destruct (caught _ _); discriminate);
      inversion H; auto. }
  destruct Hh as [Hh ->]. clear H.
  destruct (images_transport e (dedup xs) R (forall_dedup _ _ (map_out_images e _ _ M))) as (ds & I & T).
  exists (VList ds), (match c with SeqSet => VSet (dedup xs) | _ => VFrozenSet (dedup xs) end).
  split; [|split; [|constructor]].
  - destruct Hc; subst c; simpl; now rewrite I.
  - simpl. replace (gate_sequence KList) with true by reflexivity. rewrite T. unfold guard.
    destruct Hc; subst c; simpl; rewrite (hashable_dedup xs Hh), dedup_idem; reflexivity.
Qed.

Theorem rt2_all t : rt2_ty t -> rt2_at t.
Proof.
  induction t using ty_ind'; intros R; inversion R; subst; try (apply base_rt2; assumption).
  - (* list *)
    match goal with HR : rt2_ty t |- _ => specialize (IHt HR) end. intros v x H. simpl in H.
    destruct (gate_sequence (kind_of v)) eqn:G; [|discriminate].
    destruct (map_out (tc t) (items_of v)) as [xs| |e] eqn:M; try discriminate; try (destruct (caught _ _); discriminate).
    simpl in H. inversion H; subst x.
    destruct (seq_transport2 t _ _ IHt M) as (ds & xs' & M1 & N1 & S1).
    exists (VList ds), (VList xs'). simpl. rewrite M1. split; [reflexivity|]. simpl. rewrite N1. split; [reflexivity|]. now constructor.
  - (* variadic tuple *)
    match goal with HR : rt2_ty t |- _ => specialize (IHt HR) end. intros v x H. simpl in H.
    destruct (gate_sequence (kind_of v)) eqn:G; [|discriminate].
    destruct (map_out (tc t) (items_of v)) as [xs| |e] eqn:M; try discriminate; try (destruct (caught _ _); discriminate).
    simpl in H. inversion H; subst x.
    destruct (seq_transport2 t _ _ IHt M) as (ds & xs' & M1 & N1 & S1).
    exists (VTuple ds), (VTuple xs'). simpl. rewrite M1. split; [reflexivity|]. simpl. rewrite N1. split; [reflexivity|]. now constructor.
  - apply set_roundtrip; auto.
  - apply set_roundtrip; auto.
  - (* fixed tuple *)
    assert (A : Forall rt2_at es).
    { match goal with HR : Forall rt2_ty es |- _ => exact (forall_mp _ _ _ H HR) end. }
    intros v x Hx. simpl in Hx.
    destruct (gate_sequence (kind_of v)) eqn:G; [|discriminate].
    destruct (Nat.eqb (List.length (items_of v)) (List.length es)) eqn:L; [|discriminate]. simpl in Hx.
    apply Nat.eqb_eq in L.
    destruct (zip_out tc es (items_of v)) as [xs| |e] eqn:Z; try discriminate. inversion Hx; subst x.
    destruct (tuple_transport2 es A _ _ L Z) as (ds & xs' & M1 & L1 & N1 & S1).
    exists (VTuple ds), (VTuple xs'). simpl. rewrite M1. split; [reflexivity|]. simpl. rewrite L1, Nat.eqb_refl. simpl. rewrite N1.
    split; [reflexivity|]. now constructor.
  - (* text-keyed mappings *)
    match goal with HR : rt2_ty t2 |- _ => specialize (IHt2 HR); rename HR into Rv end.
    intros v x Hx. simpl in Hx.
    destruct (gate_mapping (kind_of v)) eqn:G; [|discriminate].
    change (map_out _ (pairs_of v)) with (map_out (dict_conv t2) (pairs_of v)) in Hx.
    destruct (map_out (dict_conv t2) (pairs_of v)) as [kvs| |z] eqn:M; try discriminate; try (destruct (caught _ _); discriminate).
    destruct (dict_pairs_image t2 _ _ M) as (l0 & -> & F0).
    unfold guard, dict_ctor in Hx. rewrite strkeys_hashable in Hx.
    destruct (fold_set_str (fun y => exists v0, tc t2 v0 = Ok y) l0 [] (NoDup_nil _) (Forall_nil _) F0) as (l & E & N & F).
    simpl in E. rewrite E in Hx. inversion Hx; subst x. clear Hx E.
    assert (X : exists ld l',
              Forall2 (fun nv nd => fst nd = fst nv /\ tc t2 (snd nd) = Ok (snd nv)) l' ld /\
              Forall2 (fun a b => fst a = fst b /\ same_val (snd a) (snd b)) l' l /\
              map_out (dict_into t2) (map strkey l) = Ok (map strkey ld)).
    { clear N. induction F as [|[n y] l (v0 & E0) _ IH].
      - exists [], []. repeat split; constructor.
      - destruct IH as (ld & l' & A1 & A2 & M1).
        destruct (IHt2 v0 y E0) as (d & y' & I1 & T1 & S1).
        exists ((n, d) :: ld), ((n, y') :: l'). repeat split; try (constructor; simpl; auto; fail).
        simpl map. apply map_out_cons_ok; [|exact M1]. unfold dict_into, strkey. simpl. now rewrite I1. }
    destruct X as (ld & l' & A1 & A2 & M1).
    assert (Nk1 : map fst ld = map fst l').
    { clear -A1. induction A1 as [|a b l' ld [E _] _ IH]; simpl; [reflexivity|]. now rewrite E, IH. }
    assert (Nk2 : map fst l' = map fst l).
    { clear -A2. induction A2 as [|a b l' l [E _] _ IH]; simpl; [reflexivity|]. now rewrite E, IH. }
    exists (VDict (map strkey ld)), (VDict (map strkey l')). split; [|split].
    + rewrite (into_dict_str t2 _ (rt2_not_any _ Rv)), M1. apply build_dict_strkeys. now rewrite Nk1, Nk2.
    + simpl. replace (gate_mapping KDict) with true by reflexivity.
      change (map_out _ (map strkey ld)) with (map_out (dict_conv t2) (map strkey ld)).
      rewrite (dict_pairs_again2 t2 l' ld A1). unfold guard. rewrite (dict_ctor_strkeys l'); [reflexivity|now rewrite Nk2].
    + apply sv_dict. clear -A2. induction A2 as [|a b l' l [E S] _ IH]; simpl; constructor; auto.
      unfold strkey. simpl. now rewrite E.
  - (* Optional[dataclass] *)
    match goal with HR : rt2_ty (TClass h fs) |- _ => rename HR into Rc end.
    inversion H as [|? ? Hc _]; subst. specialize (Hc Rc).
    intros v x Hx.
    change (tc (TUnion [TClass h fs; TNone]) v) with
      (match tc (TClass h fs) v with
       | Ok y => Ok y
       | Reject => match tc TNone v with Ok y => Ok y | Reject => Reject | Escape e => Escape e end
       | Escape e => Escape e end) in Hx.
    destruct (tc (TClass h fs) v) as [y| |z] eqn:Ec; try discriminate.
    + assert (Ey : y = x) by congruence. subst y. destruct (Hc v x Ec) as (d & x' & I & T & S).
      destruct (images_are_typed (TClass h fs) v x Ec) as (fields & vals & -> & _).
      exists d, x'. split; [|split; [|exact S]].
      * rewrite into_union_unfold.
        assert (P0 : union_pick (VInst (c_name h) fields (map fst vals)) [TClass h fs; TNone] = None) by reflexivity.
        rewrite P0. unfold union_default. simpl. rewrite String.eqb_refl. exact I.
      * change (tc (TUnion [TClass h fs; TNone]) d) with
          (match tc (TClass h fs) d with
           | Ok y => Ok y
           | Reject => match tc TNone d with Ok y => Ok y | Reject => Reject | Escape e => Escape e end
           | Escape e => Escape e end). now rewrite T.
    + simpl in Hx. destruct v; try discriminate. inversion Hx; subst x.
      exists VNone, VNone. repeat split; try reflexivity. constructor.
  - (* dataclasses *)
    match goal with HR : Forall (fun ft => rt2_ty (snd ft)) fs |- _ => pose proof (forall_mp _ _ _ H HR) as Q end.
    assert (Q' : Forall (fun ft : fld * ty => forall v x, tc (snd ft) v = Ok x -> rt2_val (snd ft) x) fs) by exact Q.
    intros v x Hx.
    match goal with HD : _ \/ _ |- _ => destruct HD as [(OT & FS & No & Rd)|(OT & FT & K)] end.
    + destruct (class_roundtrip_gen same_val same_hook h fs ltac:(assumption) ltac:(assumption) No Rd Q' v x OT FS Hx)
        as (fields & setf & d & fields' & -> & I & T & Rl).
      exists d, (VInst (c_name h) fields' (map fst fields')). repeat split; auto.
      apply sv_inst. exact (forall2_flip _ _ _ Rl).
    + destruct (class_roundtrip_tuple_gen same_val same_hook h fs ltac:(assumption) ltac:(assumption) Q' v x OT FT K Hx)
        as (fields & setf & d & fields' & -> & I & T & Rl).
      exists d, (VInst (c_name h) fields' (map fst fields')). repeat split; auto.
      apply sv_inst. exact (forall2_flip _ _ _ Rl).
Qed.

Corollary nested_roundtrip t v x :
  rt2_ty t -> tc t v = Ok x -> exists d x', into_data t x = Ok d /\ tc t d = Ok x' /\ same_val x' x.
Proof. intros R H. exact (rt2_all t R v x H). Qed.
