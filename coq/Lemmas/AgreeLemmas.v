(* The two passes of the conversion model agree (C03) and nothing but
   Reject / a tree comes out of them (C04), for every well-formed type and EVERY
   value.  Proved against the generated except-clause table (Gen/GenExcept.v). *)
From Coq Require Import ZArith List Bool String Lia.
Require Import Base.PyNum Base.Outcome Model.Values Model.Vocab Model.Types Model.Expected Model.Conv.
Require Import Gen.GenScalars Gen.GenGates Gen.GenExcept.
Import ListNotations.

(* ------------------------------------------------------------------ *)
(* What the proofs need from the except clauses of the current source.   *)

Definition sites_total : Prop :=
  catch_all S_scalar_try = true /\ catch_all S_scalar_collect = true /\
  catch_all S_seq_try = true /\ catch_all S_seq_collect = true /\
  catch_all S_dict_try = true /\ catch_all S_dict_collect = true /\
  catch_all S_cond_try = true /\ catch_all S_cond_collect = true /\
  catch_all S_post_struct_try = true /\ catch_all S_post_struct_collect = true /\
  catch_all S_post_tuple_try = true /\ catch_all S_post_tuple_collect = true /\
  caught S_tag_try EKeyError = true /\ caught S_tag_try ETypeError = true /\
  caught S_tag_collect EKeyError = true /\ caught S_tag_collect ETypeError = true /\
  caught S_enum_try EKeyError = true /\ caught S_enum_collect EKeyError = true.

Lemma sites_total_holds : sites_total.
Proof. unfold sites_total. repeat split; reflexivity. Qed.

Lemma caught_all s e : catch_all s = true -> caught s e = true.
Proof. intros H. unfold caught. now rewrite H. Qed.

(* ------------------------------------------------------------------ *)

Definition agree_at (t : ty) (v : pyval) : Prop :=
  match tc t v, ce t v with
  | Ok _, CNone => True
  | Reject, CTree _ => True
  | _, _ => False
  end.

Definition agrees (t : ty) : Prop := forall v, agree_at t v.

Lemma agree_cases t v :
  agree_at t v ->
  (exists x, tc t v = Ok x /\ ce t v = CNone) \/ (tc t v = Reject /\ exists e, ce t v = CTree e).
Proof.
  unfold agree_at. destruct (tc t v) eqn:E1, (ce t v) eqn:E2; intros H; try contradiction.
  - left. eauto.
  - right. eauto.
Qed.

Lemma agree_intro_ok t v x : tc t v = Ok x -> ce t v = CNone -> agree_at t v.
Proof. intros H1 H2. unfold agree_at. now rewrite H1, H2. Qed.
Lemma agree_intro_rej t v e : tc t v = Reject -> ce t v = CTree e -> agree_at t v.
Proof. intros H1 H2. unfold agree_at. now rewrite H1, H2. Qed.

(* generic: same raw under a catch-all guard *)
Lemma guard_pair {A} s1 s2 (r : raw A) on_raise e0 :
  catch_all s1 = true -> catch_all s2 = true -> on_raise = CTree e0 ->
  match guard s1 r, guard_c s2 (raw_unit r) on_raise with
  | Ok _, CNone => True
  | Reject, CTree _ => True
  | _, _ => False
  end.
Proof.
  intros H1 H2 ->. destruct r as [a|e]; simpl; [exact I|].
  now rewrite (caught_all _ e H1), (caught_all _ e H2).
Qed.

(* well-formed enum member values: interchange scalars *)
Definition enum_val_ok (v : pyval) : bool :=
  match v with
  | VNone | VBool _ | VInt _ | VFloat _ | VComplex _ _ | VStr _ | VBytes _ => true
  | _ => false
  end.

Fixpoint wf_ty (t : ty) : Prop :=
  match t with
  | TAny | TNone | TScalar _ | TLiteral _ => True
  | TSeq _ e => wf_ty e
  | TTuple es => (fix go (l : list ty) : Prop := match l with [] => True | x :: r => wf_ty x /\ go r end) es
  | TDict k v => wf_ty k /\ wf_ty v
  | TStruct fs => (fix go (l : list (string * ty)) : Prop := match l with [] => True | x :: r => wf_ty (snd x) /\ go r end) fs
  | TUnion ms => (fix go (l : list ty) : Prop := match l with [] => True | x :: r => wf_ty x /\ go r end) ms
  | TEnum _ members => forallb (fun m => enum_val_ok (snd m)) members = true
  | TClass _ fs => (fix go (l : list (fld * ty)) : Prop := match l with [] => True | x :: r => wf_ty (snd x) /\ go r end) fs
  | TCond inner _ => wf_ty inner
  | TTagged _ _ vs => (fix go (l : list (pyval * ty)) : Prop := match l with [] => True | x :: r => wf_ty (snd x) /\ go r end) vs
  end.

(* ------------------------------------------------------------------ heads (enum inner conversion) *)

Definition is_head (t : ty) : Prop := t = TAny \/ t = TNone \/ exists s, t = TScalar s.

Lemma head_agree t v : is_head t ->
  match tc_head t v, ce_head t v with
  | Ok _, CNone => True | Reject, CTree _ => True | _, _ => False end.
Proof.
  destruct sites_total_holds as (S1 & S2 & _).
  intros [->|[->|[s ->]]]; simpl.
  - exact I.
  - destruct v; simpl; exact I.
  - destruct (scalar_allowed s (kind_of v)); [|exact I].
    apply (guard_pair S_scalar_try S_scalar_collect (scalar_ctor s v) _ _ S1 S2 eq_refl).
Qed.

(* the value produced at a head is hashable when the head is not Any/bytearray *)
Definition hashable_head (t : ty) : Prop :=
  t = TNone \/ exists s, t = TScalar s /\ s <> SByteArray.

Lemma head_result_hashable t v x : hashable_head t -> tc_head t v = Ok x -> hashable x = true.
Proof.
  intros [->|[s [-> Hs]]]; simpl.
  - destruct v; intros H; inversion H; reflexivity.
  - destruct (scalar_allowed s (kind_of v)); [|discriminate].
    unfold guard. destruct (scalar_ctor s v) as [a|e] eqn:E; [|destruct (caught _ _); discriminate].
    intros H; inversion H; subst x.
    destruct s, v; simpl in E; try discriminate; try (inversion E; reflexivity); try congruence.
    all: unfold to_float_raw in E; destruct (float_of_Z z); inversion E; reflexivity.
Qed.

Lemma ty_of_val_head v : enum_val_ok v = true -> is_head (ty_of_val v) /\ hashable_head (ty_of_val v).
Proof.
  destruct v; simpl; try discriminate; intros _; unfold is_head, hashable_head.
  all: split;
    [ first [ left; reflexivity | right; left; reflexivity | right; right; eexists; reflexivity ]
    | first [ left; reflexivity | right; eexists; split; [reflexivity|discriminate] ] ].
Qed.

Lemma dedup_heads_in l t : In t (dedup_heads l) -> In t l.
Proof.
  revert t. induction l as [|x l IH]; simpl; [tauto|].
  intros t [->|H]; [now left|]. apply filter_In in H as [H _]. right. now apply IH.
Qed.

Lemma enum_heads members :
  forallb (fun m => enum_val_ok (snd m)) members = true ->
  Forall (fun h => is_head h /\ hashable_head h) (dedup_heads (map (fun m : string * pyval => ty_of_val (snd m)) members)).
Proof.
  intros H. apply Forall_forall. intros h Hin. apply dedup_heads_in in Hin.
  apply in_map_iff in Hin as (m & <- & Hm).
  rewrite forallb_forall in H. apply ty_of_val_head. now apply H.
Qed.

Lemma union_heads_agree v hs :
  Forall (fun h => is_head h /\ hashable_head h) hs ->
  (exists x, first_ok (fun h => tc_head h v) hs = Ok x /\ hashable x = true /\
             union_collect tc_head ce_head v hs = ROk None) \/
  (first_ok (fun h => tc_head h v) hs = Reject /\
   exists ch, union_collect tc_head ce_head v hs = ROk (Some ch)).
Proof.
  induction 1 as [|h hs [Hh Hhash] _ IH]; simpl.
  - right. split; [reflexivity|]. now exists [].
  - pose proof (head_agree h v Hh) as A.
    destruct (tc_head h v) as [x| |e] eqn:E1; destruct (ce_head h v) as [|e'|e'] eqn:E2; try contradiction.
    + left. exists x. repeat split; auto. eapply head_result_hashable; eauto.
    + destruct IH as [(x & F & Hx & U)|(F & ch & U)].
      * left. exists x. now rewrite F, U.
      * right. rewrite F, U. split; [reflexivity|]. eexists; reflexivity.
Qed.

Lemma enum_inner_agree members v :
  forallb (fun m => enum_val_ok (snd m)) members = true ->
  (exists x, tc_enum_inner members v = Ok x /\ hashable x = true) \/
  (tc_enum_inner members v = Reject /\ exists e, ce_enum_inner members v = CTree e).
Proof.
  intros H. pose proof (enum_heads members H) as HF.
  unfold tc_enum_inner, ce_enum_inner, enum_inner.
  destruct (dedup_heads (map (fun m => ty_of_val (snd m)) members)) as [|h [|h2 hs]] eqn:E.
  - (* no members: TUnion [] *)
    right. simpl. split; [reflexivity|]. eexists; reflexivity.
  - inversion HF as [|? ? [Hh Hhash] _]; subst.
    assert (Hne : forall ts, h <> TUnion ts) by (destruct Hh as [->|[->|[s ->]]]; discriminate).
    pose proof (head_agree h v Hh) as A.
    destruct h; try (exfalso; eapply Hne; reflexivity);
      destruct (tc_head _ v) as [x| |e] eqn:E1; destruct (ce_head _ v) as [|e'|e'] eqn:E2; try contradiction;
      try (left; exists x; split; [reflexivity|eapply head_result_hashable; eauto]);
      try (right; split; [reflexivity|eexists; reflexivity]).
    all: try (simpl in E1; inversion E1; subst; left; eexists; split; [reflexivity|]).
    all: destruct Hhash as [Hx|[s [Hx _]]]; discriminate.
  - destruct (union_heads_agree v _ HF) as [(x & F & Hx & U)|(F & ch & U)].
    + left. exists x. now rewrite F.
    + right. rewrite F, U. split; [reflexivity|]. eexists; reflexivity.
Qed.

(* ------------------------------------------------------------------ loops *)

Lemma convert_with_agree t x :
  agree_at t x ->
  (exists y, tc t x = Ok y /\ convert_with (tc t x) (fun _ => ce t x) = COk y) \/
  (tc t x = Reject /\ exists e, convert_with (tc t x) (fun _ => ce t x) = CErr e).
Proof.
  intros A. destruct (agree_cases _ _ A) as [(y & H1 & H2)|(H1 & e & H2)].
  - left. exists y. now rewrite H1.
  - right. rewrite H1. split; [reflexivity|]. exists e. simpl. now rewrite H2.
Qed.

(* SequenceConverter *)
Lemma seq_loops e xs :
  agrees e ->
  (exists ys, map_out (tc e) xs = Ok ys /\ forall i, seq_collect (tc e) (ce e) i xs = ROk (ys, [])) \/
  (map_out (tc e) xs = Reject /\ forall i, exists vals c ch, seq_collect (tc e) (ce e) i xs = ROk (vals, c :: ch)).
Proof.
  intros A. induction xs as [|x xs IH]; simpl.
  - left. exists []. split; [reflexivity|]. intros; reflexivity.
  - destruct (convert_with_agree e x (A x)) as [(y & H1 & H2)|(H1 & n & H2)]; rewrite H1.
    + destruct IH as [(ys & M & S)|(M & S)]; rewrite M.
      * left. exists (y :: ys). split; [reflexivity|]. intros i. rewrite H1 in H2. rewrite H2, S. reflexivity.
      * right. split; [reflexivity|]. intros i. rewrite H1 in H2. rewrite H2.
        destruct (S (Datatypes.S i)) as (vals & c & ch & ->). eauto.
    + right. split; [reflexivity|]. intros i. rewrite H1 in H2. rewrite H2.
      destruct IH as [(ys & M & S)|(M & S)].
      * rewrite S. eauto.
      * destruct (S (Datatypes.S i)) as (vals & c & ch & ->). eauto.
Qed.

(* TupleConverter *)
Lemma tuple_loops es xs :
  Forall agrees es ->
  (exists ys, zip_out tc es xs = Ok ys /\ forall i, tuple_collect ce i es xs = ROk []) \/
  (zip_out tc es xs = Reject /\ forall i, exists c ch, tuple_collect ce i es xs = ROk (c :: ch)).
Proof.
  intros H. revert xs. induction H as [|t es A _ IH]; intros xs; simpl.
  - left. exists []. split; [reflexivity|]. intros; reflexivity.
  - destruct xs as [|x xs].
    + left. exists []. split; [reflexivity|]. intros; reflexivity.
    + destruct (agree_cases _ _ (A x)) as [(y & H1 & H2)|(H1 & n & H2)]; rewrite H1, H2.
      * destruct (IH xs) as [(ys & M & S)|(M & S)]; rewrite M.
        -- left. exists (y :: ys). split; [reflexivity|]. intros i. apply S.
        -- right. split; [reflexivity|]. intros i. apply S.
      * right. split; [reflexivity|]. intros i.
        destruct (IH xs) as [(ys & M & S)|(M & S)].
        -- rewrite S. eauto.
        -- destruct (S (Datatypes.S i)) as (c & ch & ->). eauto.
Qed.

(* DictConverter *)
Definition pair_conv (kt vt : ty) (kv : pyval * pyval) : outcome (pyval * pyval) :=
  match tc kt (fst kv) with
  | Ok k' => match tc vt (snd kv) with Ok v' => Ok (k', v') | Reject => Reject | Escape x => Escape x end
  | Reject => Reject
  | Escape x => Escape x
  end.

Lemma node_set_nonempty k e nodes : node_set k e nodes <> [].
Proof.
  unfold node_set. destruct nodes as [|[k' e'] r]; simpl; [discriminate|].
  destruct (strof_eqb k k'); discriminate.
Qed.

Lemma dict_collect_nonempty kt vt kvs nodes :
  agrees kt -> agrees vt -> nodes <> [] ->
  exists c ch, dict_collect (ce kt) (ce vt) kvs nodes = ROk (c :: ch).
Proof.
  intros Ak Av. revert nodes. induction kvs as [|[k x] kvs IH]; intros nodes Hne; simpl.
  - destruct nodes; [congruence|eauto].
  - destruct (agree_cases _ _ (Ak k)) as [(y & H1 & H2)|(H1 & n & H2)]; rewrite H2;
      destruct (agree_cases _ _ (Av x)) as [(y' & H1' & H2')|(H1' & n' & H2')]; rewrite H2';
      apply IH; auto using node_set_nonempty.
Qed.

Lemma dict_loops kt vt kvs :
  agrees kt -> agrees vt ->
  (exists out, map_out (pair_conv kt vt) kvs = Ok out /\ forall nodes, dict_collect (ce kt) (ce vt) kvs nodes = ROk nodes) \/
  (map_out (pair_conv kt vt) kvs = Reject /\ forall nodes, exists c ch, dict_collect (ce kt) (ce vt) kvs nodes = ROk (c :: ch)).
Proof.
  intros Ak Av. induction kvs as [|[k x] kvs IH]; simpl.
  - left. exists []. split; [reflexivity|]. intros; reflexivity.
  - unfold pair_conv at 1 3. simpl.
    destruct (agree_cases _ _ (Ak k)) as [(y & H1 & H2)|(H1 & n & H2)]; rewrite H1, H2.
    + destruct (agree_cases _ _ (Av x)) as [(y' & H1' & H2')|(H1' & n' & H2')]; rewrite H1', H2'.
      * destruct IH as [(out & M & S)|(M & S)]; rewrite M.
        -- left. eexists. split; [reflexivity|]. intros nodes. apply S.
        -- right. split; [reflexivity|]. intros nodes. apply S.
      * right. split; [reflexivity|]. intros nodes.
        apply dict_collect_nonempty; auto using node_set_nonempty.
    + right. split; [reflexivity|]. intros nodes.
      destruct (agree_cases _ _ (Av x)) as [(y' & H1' & H2')|(H1' & n' & H2')]; rewrite H2';
        apply dict_collect_nonempty; auto using node_set_nonempty.
Qed.

(* UnionConverter *)
Lemma union_loops v ms :
  Forall agrees ms ->
  (exists x, first_ok (fun m => tc m v) ms = Ok x /\ union_collect tc ce v ms = ROk None) \/
  (first_ok (fun m => tc m v) ms = Reject /\ exists ch, union_collect tc ce v ms = ROk (Some ch)).
Proof.
  induction 1 as [|m ms A _ IH]; simpl.
  - right. split; [reflexivity|]. now exists [].
  - destruct (agree_cases _ _ (A v)) as [(y & H1 & H2)|(H1 & n & H2)]; rewrite H1.
    + left. now exists y.
    + rewrite H2. destruct IH as [(x & F & U)|(F & ch & U)]; rewrite F, U.
      * left. now exists x.
      * right. split; [reflexivity|]. eexists; reflexivity.
Qed.

(* StructConverter (struct-literal types) *)
Section Lit.
  Variable fs : list (string * ty).
  Hypothesis Hfs : Forall (fun x => agrees (snd x)) fs.

  Lemma with_key_cases {C} k (g : ty -> C) :
    with_key k g fs = None \/ exists t, In t (map snd fs) /\ with_key k g fs = Some (g t) /\ forall C' (g' : ty -> C'), with_key k g' fs = Some (g' t).
  Proof.
    clear Hfs. induction fs as [|[n t] r IH]; simpl.
    - now left.
    - destruct (key_is k n).
      + right. exists t. split; [now left|]. split; [reflexivity|]. intros; reflexivity.
      + destruct IH as [->|(t' & Hin & E & E')].
        * left. reflexivity.
        * right. exists t'. split; [now right|]. split; [assumption|]. intros. apply E'.
  Qed.

  Lemma with_key_none {C C'} k (g : ty -> C) (g' : ty -> C') :
    with_key k g fs = None -> with_key k g' fs = None.
  Proof.
    clear Hfs. induction fs as [|[n t] r IH]; simpl; [reflexivity|].
    destruct (key_is k n); [discriminate|apply IH].
  Qed.

  Lemma lit_loops kvs :
    (exists d, lit_try_loop tc fs kvs = Ok d /\ lit_collect ce fs kvs = ROk ([], [])) \/
    (lit_try_loop tc fs kvs = Reject /\
     exists ch ex, lit_collect ce fs kvs = ROk (ch, ex) /\ (ch <> [] \/ ex <> [])).
  Proof.
    induction kvs as [|[k x] kvs IH]; simpl.
    - left. exists []. split; reflexivity.
    - destruct (with_key_cases k (fun t => tc t x)) as [E|(t & Hin & E & E')].
      + rewrite E. rewrite (with_key_none k _ (fun t => ce t x) E).
        right. split; [reflexivity|].
        destruct IH as [(d & _ & S)|(_ & ch & ex & S & _)]; rewrite S; do 2 eexists; split; try reflexivity; right; discriminate.
      + rewrite E, (E' _ (fun t => ce t x)).
        assert (A : agrees t).
        { apply in_map_iff in Hin as ([n t'] & <- & Hin). rewrite Forall_forall in Hfs. apply (Hfs _ Hin). }
        destruct (agree_cases _ _ (A x)) as [(y & H1 & H2)|(H1 & n & H2)]; rewrite H1, H2.
        * destruct IH as [(d & T & S)|(T & ch & ex & S & Hne)]; rewrite T, S.
          -- left. eexists. split; reflexivity.
          -- right. split; [reflexivity|]. do 2 eexists. split; [reflexivity|assumption].
        * right. split; [reflexivity|].
          destruct IH as [(d & _ & S)|(_ & ch & ex & S & _)]; rewrite S; do 2 eexists; split; try reflexivity; left; discriminate.
  Qed.
End Lit.
