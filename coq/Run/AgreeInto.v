(* Correspondence for the serialiser model. Lists are compared as multisets
   (a serialised set has no defined order); tuples in order. *)
From Coq Require Import ZArith List Bool String.
Require Import Base.Outcome Model.Values Model.Vocab Model.Types Model.Conv Model.Into Run.Agree Run.AgreeConv.
Import ListNotations.

Section Perm.
  Context {A : Type} (eqb : A -> A -> bool).
  Section Remove.
    Variable x : A.
    Fixpoint remove_first (l : list A) : option (list A) :=
      match l with
      | [] => None
      | y :: r => if eqb x y then Some r
                  else match remove_first r with Some r' => Some (y :: r') | None => None end
      end.
  End Remove.
  Fixpoint perm_eqb (a b : list A) : bool :=
    match a with
    | [] => match b with [] => true | _ => false end
    | x :: r => match remove_first x b with Some b' => perm_eqb r b' | None => false end
    end.
End Perm.

Fixpoint data_eqb (a b : pyval) {struct a} : bool :=
  match a, b with
  | VList l, VList m => perm_eqb data_eqb l m
  | VTuple l, VTuple m => list_eqb data_eqb l m
  | VDict l, VDict m =>
      list_eqb (fun kv kv' => data_eqb (fst kv) (fst kv') && data_eqb (snd kv) (snd kv')) l m
  | _, _ => val_eqb a b
  end.

Definition into_case := (ty * pyval * outcome pyval)%type.

Definition into_case_ok (c : into_case) : bool :=
  let '(t, x, obs) := c in
  match into_data t x, obs with
  | Escape EOther, _ => true          (* outside the modelled fragment *)
  | Ok d, Ok d' => data_eqb d d'
  | Escape e, Escape e' => exn_eqb e e'
  | Reject, Reject => true
  | _, _ => false
  end.
Definition into_mismatches := mismatches into_case_ok.
Definition into_case_model (c : into_case) := let '(t, x, _) := c in into_data t x.
Definition into_unmodelled (l : list into_case) : nat :=
  List.length (filter (fun c => let '(t, x, _) := c in match into_data t x with Escape EOther => true | _ => false end) l).

(* convert(x, T) = from_data(into_data(x), T): serialise by the value's own class, parse as T *)
Definition into_top (t : ty) (x : pyval) : outcome pyval :=
  match x with
  | VInst c _ _ =>
      match t with
      | TClass h _ => if String.eqb (c_name h) c then into_data t x else unmodelled
      | _ => unmodelled
      end
  | _ => into_auto x
  end.

Definition convobj_case := (ty * pyval * conv_res)%type.
Definition convres_eqb (m o : conv_res) : bool :=
  match m, o with
  | COk a, COk b => val_eqb a b
  | CErr a, CErr b => enode_eqb a b
  | CThrow a, CThrow b => exn_eqb a b
  | _, _ => false
  end.
Definition convobj_case_ok (c : convobj_case) : bool :=
  let '(t, x, obs) := c in
  match into_top t x with
  | Escape EOther => true
  | Ok d => convres_eqb (convert t d) obs
  | Escape e => match obs with CThrow e' => exn_eqb e e' | _ => false end
  | Reject => false
  end.
Definition convobj_mismatches := mismatches convobj_case_ok.
