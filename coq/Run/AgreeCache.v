(* correspondence for pane.util.KeyCache: histories of calls on the real object vs the model *)
From Coq Require Import List Arith Bool.
Require Import Model.Cache Run.Agree.
Import ListNotations.
(* a case: maxsize (0 = unbounded), the keys called, and for each call what pane did:
   (result, inner function called?, keys held afterwards: recency order for the LRU mode,
   insertion order for the unbounded mode) *)
Definition cache_case := (nat * list nat * list (nat * bool * list nat))%type.
Definition fmodel (k : nat) : nat := 2 * k + 1.

Fixpoint sim (call : list (nat * nat) -> nat -> list (nat * nat) * nat * bool) (c : list (nat * nat)) (ks : list nat)
  : list (nat * bool * list nat) :=
  match ks with
  | [] => []
  | k :: r => let '(c', v, b) := call c k in (v, b, map fst c') :: sim call c' r
  end.

Fixpoint nats_eqb (a b : list nat) : bool :=
  match a, b with
  | [], [] => true
  | x :: r, y :: s => Nat.eqb x y && nats_eqb r s
  | _, _ => false
  end.
Definition obs_eqb (a b : nat * bool * list nat) : bool :=
  let '(v, c, ks) := a in let '(v', c', ks') := b in Nat.eqb v v' && Bool.eqb c c' && nats_eqb ks ks'.
Fixpoint obss_eqb (a b : list (nat * bool * list nat)) : bool :=
  match a, b with
  | [], [] => true
  | x :: r, y :: s => obs_eqb x y && obss_eqb r s
  | _, _ => false
  end.

Definition cache_case_ok (c : cache_case) : bool :=
  let '(m, ks, obs) := c in
  obss_eqb (sim (match m with O => ucall nat fmodel | _ => lcall nat fmodel m end) [] ks) obs.
Definition cache_mismatches := mismatches cache_case_ok.
