(* Comparison helpers for the correspondence check: the verdict "model and
   implementation agree on case i" is computed inside Coq; only the list of
   disagreeing indices is printed. *)
From Coq Require Import List String Ascii Bool Arith.
Import ListNotations.

Section Mismatch.
  Context {A : Type} (ok : A -> bool).
  Fixpoint mismatches_from (i : nat) (l : list A) : list nat :=
    match l with
    | [] => []
    | x :: r => if ok x then mismatches_from (S i) r else i :: mismatches_from (S i) r
    end.
  Definition mismatches (l : list A) : list nat := mismatches_from 0 l.
End Mismatch.

Definition opt_string_eqb (a b : option string) : bool :=
  match a, b with
  | Some x, Some y => String.eqb x y
  | None, None => true
  | _, _ => false
  end.
