From Coq Require Import List Bool String Arith.
Require Import Model.Process Run.Agree.
Import ListNotations.
(* levels, observed fields (name, kw_only, has_default) in order, observed (min, max) positional *)
Definition proc_case := (list level * list (string * bool * bool) * (nat * nat))%type.
Fixpoint obs_eqb (a : list (string * fdesc)) (b : list (string * bool * bool)) : bool :=
  match a, b with
  | [], [] => true
  | (n, d) :: r, (n', k, h) :: s => String.eqb n n' && Bool.eqb (d_kw_only d) k && Bool.eqb (d_has_default d) h && obs_eqb r s
  | _, _ => false
  end.
Definition proc_case_ok (c : proc_case) : bool :=
  let '(levels, obs, (mn, mx)) := c in
  let fs := fields_of levels in
  obs_eqb fs obs && (let '(a, b) := pos_range fs 0 0 in Nat.eqb a mn && Nat.eqb b mx).
Definition proc_mismatches := mismatches proc_case_ok.

(* ---- type-variable substitution: util.replace_typevars against tsubst ---- *)
Fixpoint tyexp_eqb (a b : tyexp) {struct a} : bool :=
  match a, b with
  | EVar n, EVar m => Nat.eqb n m
  | EConst s, EConst s' => String.eqb s s'
  | EApp s args, EApp s' args' =>
      String.eqb s s' &&
      (fix go (l m : list tyexp) : bool :=
         match l, m with
         | [], [] => true
         | x :: r, y :: q => tyexp_eqb x y && go r q
         | _, _ => false
         end) args args'
  | _, _ => false
  end.
(* bindings (type variable index, replacement), the expression, the expression pane returned *)
Definition subst_case := (list (nat * tyexp) * tyexp * tyexp)%type.
Definition subst_case_ok (c : subst_case) : bool :=
  let '(b, e, r) := c in tyexp_eqb (tsubst (sigma_of b) e) r.
Definition subst_mismatches := mismatches subst_case_ok.

(* the comparison decides equality: a case counted as agreeing is one where tsubst returns exactly the observed expression *)
Lemma tyexp_eqb_eq : forall a b, tyexp_eqb a b = true -> a = b.
Proof.
  fix IH 1. intros [n|s|s args] [m|s'|s' args']; simpl; try discriminate.
  - intros H. apply Nat.eqb_eq in H. now subst.
  - intros H. apply String.eqb_eq in H. now subst.
  - intros H. apply andb_prop in H. destruct H as [Hs Ha]. apply String.eqb_eq in Hs. subst. f_equal.
    revert args' Ha. induction args as [|x r IHr]; intros [|y q] Ha; try discriminate; [reflexivity|].
    apply andb_prop in Ha. destruct Ha as [Hx Hr]. f_equal; [now apply IH|now apply IHr].
Qed.
Lemma subst_case_ok_sound b e r : subst_case_ok (b, e, r) = true -> tsubst (sigma_of b) e = r.
Proof. unfold subst_case_ok. apply tyexp_eqb_eq. Qed.
