From Coq Require Import List Bool String Arith.
Require Import Model.Process Run.Agree.
Import ListNotations.
(* levels, observed fields (name, kw_only, has_default) in order, observed (min, max) positional *)
Definition proc_case := (list level * list (string * bool * bool) * (nat * nat))%type.
Fixpoint obs_eqb (a : list (string * fdesc)) (b : list (string * bool * bool)) : bool :=
  match a, b with
  | [], [] => true
  | (n, d) :: r, (n', k, h) :: s => String.eqb n n' && Bool.eqb (d_kw_only d) k && Bool.eqb (d_has_default d) h && obs_eqb r s
  | _, _ => false
  end.
Definition proc_case_ok (c : proc_case) : bool :=
  let '(levels, obs, (mn, mx)) := c in
  let fs := fields_of levels in
  obs_eqb fs obs && (let '(a, b) := pos_range fs 0 0 in Nat.eqb a mn && Nat.eqb b mx).
Definition proc_mismatches := mismatches proc_case_ok.

(* ---- type-variable substitution: util.replace_typevars against tsubst ---- *)
Fixpoint tyexp_eqb (a b : tyexp) {struct a} : bool :=
  match a, b with
  | EVar n, EVar m => Nat.eqb n m
  | EConst s, EConst s' => String.eqb s s'
  | EApp s args, EApp s' args' =>
      String.eqb s s' &&
      (fix go (l m : list tyexp) : bool :=
         match l, m with
         | [], [] => true
         | x :: r, y :: q => tyexp_eqb x y && go r q
         | _, _ => false
         end) args args'
  | _, _ => false
  end.
(* bindings (type variable index, replacement), the expression, the expression pane returned *)
Definition subst_case := (list (nat * tyexp) * tyexp * tyexp)%type.
Definition subst_case_ok (c : subst_case) : bool :=
  let '(b, e, r) := c in tyexp_eqb (tsubst (sigma_of b) e) r.
Definition subst_mismatches := mismatches subst_case_ok.
