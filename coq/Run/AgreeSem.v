From Coq Require Import ZArith List Bool.
Require Import Model.ClassSem Run.Agree.
Import ListNotations.
(* (eq option, order option, same class?, fields of a, fields of b, observed eq, lt, le, gt, ge; None = TypeError) *)
Definition sem_case := (bool * bool * bool * list (Z * bool * bool) * list (Z * bool * bool)
                        * bool * option bool * option bool * option bool * option bool)%type.
Definition ob_eqb (a b : option bool) : bool :=
  match a, b with Some x, Some y => Bool.eqb x y | None, None => true | _, _ => false end.
Definition sem_case_ok (c : sem_case) : bool :=
  let '(eqo, ordo, same, fa, fb, oeq, olt, ole, ogt, oge) := c in
  let a := mkInst Z 0 0 fa in
  let b := mkInst Z (if same then 0 else 1) (if same then 0 else 1) fb in
  let m_eq := if eqo then inst_eq Z Z.eqb a b else false in
  let ord (f : inst Z -> inst Z -> option bool) := if ordo then f a b else None in
  Bool.eqb m_eq oeq && ob_eqb (ord (inst_lt Z Z.eqb Z.gtb)) olt && ob_eqb (ord (inst_le Z Z.eqb Z.gtb)) ole
  && ob_eqb (ord (inst_gt Z Z.eqb Z.gtb)) ogt && ob_eqb (ord (inst_ge Z Z.eqb Z.gtb)) oge.
Definition sem_mismatches := mismatches sem_case_ok.
