(* Correspondence for the conversion model: compares the model's results with
   pane's canonicalised observations. The first argument is always the model's
   result, the second the observation. *)
From Coq Require Import ZArith List Bool String.
Require Import Base.Outcome Model.Values Model.Vocab Model.Types Model.Expected Model.Conv Run.Agree.
Import ListNotations.

Definition opt_str_eqb (a b : option string) : bool :=
  match a, b with Some x, Some y => String.eqb x y | None, None => true | _, _ => false end.

Definition key_agree (m o : ekey) : bool :=
  match m, o with
  | KIdx a, KIdx b => Nat.eqb a b
  | KVal a, KVal b => val_eqb a b
  | KStrOf a, KVal (VStr s) => match py_str a with Some t => String.eqb t s | None => true end
  | _, _ => false
  end.

Definition set_eqb {A} (eqb : A -> A -> bool) (a b : list A) : bool :=
  Nat.eqb (List.length a) (List.length b) && subset_b eqb a b && subset_b eqb b a.

Fixpoint enode_eqb (m o : enode) {struct m} : bool :=
  match m, o with
  | EWrongType e a c i, EWrongType e' a' c' i' =>
      String.eqb e e' && val_eqb a a' && Bool.eqb c c' && opt_str_eqb i i'
  | EWrongLen e mn mx a n, EWrongLen e' mn' mx' a' n' =>
      String.eqb e e' && Nat.eqb mn mn' && Nat.eqb mx mx' && val_eqb a a' && Nat.eqb n n'
  | ECondFailed e a cn c, ECondFailed e' a' cn' c' =>
      String.eqb e e' && val_eqb a a' && String.eqb cn cn' && Bool.eqb c c'
  | EDupKey k al, EDupKey k' al' => val_eqb k k' && list_eqb String.eqb al al'
  | EProduct e ch a mi ex, EProduct e' ch' a' mi' ex' =>
      String.eqb e e' &&
      list_eqb (fun x y => key_agree (fst x) (fst y) && enode_eqb (snd x) (snd y)) ch ch' &&
      val_eqb a a' && set_eqb String.eqb mi mi' && set_eqb val_eqb ex ex'
  | ESum ch, ESum ch' => list_eqb enode_eqb ch ch'
  | ENoChild, ENoChild => true
  | _, _ => false
  end.

Definition outcome_eqb (m o : outcome pyval) : bool :=
  match m, o with
  | Ok a, Ok b => val_eqb a b
  | Reject, Reject => true
  | Escape a, Escape b => exn_eqb a b
  | _, _ => false
  end.

Definition cres_eqb (m o : cres) : bool :=
  match m, o with
  | CNone, CNone => true
  | CTree a, CTree b => enode_eqb a b
  | CEscape a, CEscape b => exn_eqb a b
  | _, _ => false
  end.

Definition conv_case := (ty * pyval * outcome pyval * cres)%type.

Definition conv_case_ok (c : conv_case) : bool :=
  let '(t, v, ot, oc) := c in outcome_eqb (tc t v) ot && cres_eqb (ce t v) oc.
Definition conv_mismatches := mismatches conv_case_ok.

(* diagnostics for a single mismatching case *)
Definition conv_case_model (c : conv_case) : outcome pyval * cres :=
  let '(t, v, _, _) := c in (tc t v, ce t v).
