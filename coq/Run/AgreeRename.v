From Coq Require Import List String.
Require Import Base.Styles Model.Rename Run.Agree.
Definition rename_case_ok (c : string * style * option string) : bool :=
  let '(n, s, obs) := c in opt_string_eqb (rename_field n s) obs.
Definition rename_mismatches := mismatches rename_case_ok.
