From Coq Require Import List String Bool.
Require Import Base.Styles Model.FieldNames Run.Agree.
Import ListNotations.
Definition names_case := (string * fspec * option (list style) * option style * mf_res)%type.
Fixpoint strs_eqb (a b : list string) : bool :=
  match a, b with [], [] => true | x :: r, y :: s => String.eqb x y && strs_eqb r s | _, _ => false end.
Definition mf_eqb (a b : mf_res) : bool :=
  match a, b with
  | MFOk i o, MFOk i' o' => strs_eqb i i' && String.eqb o o'
  | MFTypeError, MFTypeError | MFValueError, MFValueError => true
  | _, _ => false
  end.
Definition names_case_ok (c : names_case) : bool :=
  let '(n, sp, ir, orr, obs) := c in mf_eqb (make_field_names n sp ir orr) obs.
Definition names_mismatches := mismatches names_case_ok.
