(* correspondence of the instance machine (Model/Instance.v) with pane: a class, the keyword
   arguments of the first construction, a sequence of operations, and what pane did at each step *)
From Coq Require Import ZArith List Bool String.
Require Import Base.Outcome Model.Values Model.Types Model.Conv Model.Instance Run.Agree.
Import ListNotations.

Definition subset (a b : list string) : bool := forallb (fun n => smem n b) a.
Definition vals_eqb (a b : list (string * pyval)) : bool :=
  Nat.eqb (List.length a) (List.length b) &&
  forallb (fun p => String.eqb (fst (fst p)) (fst (snd p)) && val_eqb (snd (fst p)) (snd (snd p))) (combine a b).

Definition out_agrees (m o : iout) : bool :=
  match m, o with
  | OutNone, OutNone | OutFrozen, OutFrozen | OutAttrError, OutAttrError | OutTypeError, OutTypeError
  | OutConvertError, OutConvertError => true
  | OutInst a, OutInst b => vals_eqb (st_vals a) (st_vals b) && subset (st_set a) (st_set b) && subset (st_set b) (st_set a)
  | OutEscape _, OutEscape _ => true
  | _, _ => false
  end.

(* class, constructor keywords, observed construction, operations, observed outputs *)
Definition inst_case := (icls * list (string * pyval) * iout * list iop * list iout)%type.

Definition inst_case_ok (c : inst_case) : bool :=
  let '(cls, kw, o0, ops, obs) := c in
  let m0 := construct_kw cls kw in
  out_agrees m0 o0 &&
  match m0 with
  | OutInst s => let tr := trace cls s ops in
                 Nat.eqb (List.length tr) (List.length obs) && forallb (fun p => out_agrees (fst p) (snd p)) (combine tr obs)
  | _ => match obs with [] => true | _ => false end
  end.
Definition inst_mismatches := mismatches inst_case_ok.
