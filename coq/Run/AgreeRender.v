From Coq Require Import List String.
Require Import Model.Conv Model.Render Model.RenderSort Run.Agree.
Import ListNotations.
Definition render_case := (enode * string)%type.
Definition render_case_ok (c : render_case) : bool :=
  let '(e, text) := c in
  match render_message e with
  | RText [s] => String.eqb s text
  | RUnmodelled => true
  | _ => false
  end.
Definition render_mismatches := mismatches render_case_ok.
Definition render_unmodelled (l : list render_case) : nat :=
  List.length (filter (fun c => match render_message (fst c) with RUnmodelled => true | _ => false end) l).
Definition render_case_model (c : render_case) := render_message (fst c).
