(* correspondence of Model/TypeKey.v with pane and typing: == of typing objects, pane's ordered key,
   and which specialisations of one generic dataclass are the same class *)
From Coq Require Import ZArith List Bool Arith.
Require Import Model.TypeKey Run.Agree.
Import ListNotations.

Fixpoint tx_eqb (a b : tx) {struct a} : bool :=
  match a, b with
  | XAtom n, XAtom m => Nat.eqb n m
  | XApp o l, XApp o' l' =>
      Nat.eqb o o' && (fix all2 (l : list tx) (l' : list tx) {struct l} : bool :=
                         match l, l' with [], [] => true | x :: r, y :: r' => tx_eqb x y && all2 r r' | _, _ => false end) l l'
  | XUnion l, XUnion l' =>
      (fix all2 (l : list tx) (l' : list tx) {struct l} : bool :=
         match l, l' with [], [] => true | x :: r, y :: r' => tx_eqb x y && all2 r r' | _, _ => false end) l l'
  | XLit v, XLit v' =>
      (fix all2 (l l' : list (nat * Z)) {struct l} : bool :=
         match l, l' with [], [] => true | x :: r, y :: r' => lit_eqb x y && all2 r r' | _, _ => false end) v v'
  | _, _ => false
  end.

(* (a, b, observed a == b, observed _ordered_type_key(a) == _ordered_type_key(b)) *)
Definition pair_case := (tx * tx * bool * bool)%type.
Definition pair_case_ok (c : pair_case) : bool :=
  let '(a, b, oeq, okeq) := c in
  Bool.eqb (py_teq a b) oeq && Bool.eqb (key_eqb (okey a) (okey b)) okeq.
Definition pair_mismatches := mismatches pair_case_ok.

(* (parameters subscripted in this order on one fresh generic class, for each the index of the
   first parameter whose class is the very same object) *)
Definition seq_case := (list tx * list nat)%type.
Fixpoint first_index (a : tx) (l : list tx) (i : nat) : nat :=
  match l with [] => i | b :: r => if tx_eqb a b then i else first_index a r (S i) end.
Definition seq_case_ok (c : seq_case) : bool :=
  let '(ps, obs) := c in
  let classes := sc_run tx (fun a => a) pane_same 256 [] ps in
  let idx := map (fun cl => first_index cl classes 0) classes in
  (fix eq (l l' : list nat) : bool := match l, l' with [], [] => true | x :: r, y :: r' => Nat.eqb x y && eq r r' | _, _ => false end) idx obs.
Definition seq_mismatches := mismatches seq_case_ok.
