(* The type grammar the conversion model covers, after make_converter's dispatch
   (List[T]/list[T]/MutableSequence[T] are all [TSeq SeqList T], Optional[T] is
   [TUnion [T; TNone]], ...).  Types are finite trees, as in pane (converter
   construction is eager). *)
From Coq Require Import ZArith List Bool String.
Require Import Base.Outcome Model.Values Model.Vocab.
Import ListNotations.

Inductive seqcls := SeqList | SeqTuple | SeqSet | SeqFrozenSet.
Inductive layout := LInternal | LExternal | LAdjacent (t c : string).
Inductive fmt := FStruct | FTuple.

(* conditions (pane.annotations) *)
Inductive cond :=
| CAdj (a : adj)
| CValRange (lo hi : option Z)
| CLenRange (lo hi : option nat)
| CAll (l : list cond)
| CAny (l : list cond)
| CNot (c : cond)
| CRaise (name : string)            (* a user predicate that raises ValueError *)
| CConst (name : string) (b : bool). (* a user predicate that answers b *)

Inductive fdefault := DNone | DValue (v : pyval) | DFactory (v : pyval).

Record fld := mkFld {
  f_name : string; f_in_names : list string; f_out_name : string;
  f_init : bool; f_exclude : bool; f_kw_only : bool; f_default : fdefault }.

(* __post_init__ programs *)
Inductive hook :=
| HNone
| HRaiseIfIntLt (f : string) (z : Z)      (* raise ValueError if field f holds an int < z *)
| HRaiseAlways.

Record class_hdr := mkCls {
  c_name : string; c_in_formats : list fmt; c_out_tuple : bool; c_allow_extra : bool; c_hook : hook }.

Inductive ty :=
| TAny | TNone
| TScalar (s : scalar)
| TSeq (c : seqcls) (e : ty)
| TTuple (es : list ty)
| TDict (k v : ty)
| TStruct (fs : list (string * ty))
| TUnion (ms : list ty)
| TLiteral (vals : list pyval)
| TEnum (name : string) (members : list (string * pyval))
| TClass (h : class_hdr) (fs : list (fld * ty))
| TCond (inner : ty) (c : cond)
| TTagged (tag : string) (lay : layout) (vs : list (pyval * ty)).

Section TyInd.
  Variable P : ty -> Prop.
  Hypothesis HAny : P TAny.
  Hypothesis HNone : P TNone.
  Hypothesis HScalar : forall s, P (TScalar s).
  Hypothesis HSeq : forall c e, P e -> P (TSeq c e).
  Hypothesis HTuple : forall es, Forall P es -> P (TTuple es).
  Hypothesis HDict : forall k v, P k -> P v -> P (TDict k v).
  Hypothesis HStruct : forall fs, Forall (fun x => P (snd x)) fs -> P (TStruct fs).
  Hypothesis HUnion : forall ms, Forall P ms -> P (TUnion ms).
  Hypothesis HLiteral : forall vals, P (TLiteral vals).
  Hypothesis HEnum : forall n ms, P (TEnum n ms).
  Hypothesis HClass : forall h fs, Forall (fun x => P (snd x)) fs -> P (TClass h fs).
  Hypothesis HCond : forall t c, P t -> P (TCond t c).
  Hypothesis HTagged : forall tag lay vs, Forall (fun x => P (snd x)) vs -> P (TTagged tag lay vs).

  Fixpoint ty_ind' (t : ty) : P t :=
    let fix go (l : list ty) : Forall P l :=
      match l with [] => Forall_nil _ | x :: r => Forall_cons _ (ty_ind' x) (go r) end in
    let fix gos (l : list (string * ty)) : Forall (fun x => P (snd x)) l :=
      match l with [] => Forall_nil _ | (k, x) :: r => Forall_cons (k, x) (ty_ind' x) (gos r) end in
    let fix gof (l : list (fld * ty)) : Forall (fun x => P (snd x)) l :=
      match l with [] => Forall_nil _ | (k, x) :: r => Forall_cons (k, x) (ty_ind' x) (gof r) end in
    let fix gov (l : list (pyval * ty)) : Forall (fun x => P (snd x)) l :=
      match l with [] => Forall_nil _ | (k, x) :: r => Forall_cons (k, x) (ty_ind' x) (gov r) end in
    match t with
    | TAny => HAny | TNone => HNone | TScalar s => HScalar s
    | TSeq c e => HSeq c e (ty_ind' e)
    | TTuple es => HTuple es (go es)
    | TDict k v => HDict k v (ty_ind' k) (ty_ind' v)
    | TStruct fs => HStruct fs (gos fs)
    | TUnion ms => HUnion ms (go ms)
    | TLiteral vals => HLiteral vals
    | TEnum n ms => HEnum n ms
    | TClass h fs => HClass h fs (gof fs)
    | TCond t' c => HCond t' c (ty_ind' t')
    | TTagged tag lay vs => HTagged tag lay vs (gov vs)
    end.
End TyInd.

Definition has_default (f : fld) : bool :=
  match f_default f with DNone => false | _ => true end.

(* PaneInfo.pos_args as _process computes it: (min, max) positional counts *)
Fixpoint pos_args_from (fs : list fld) (mn mx : nat) : nat * nat :=
  match fs with
  | [] => (mn, mx)
  | f :: r =>
      if negb (f_init f) then pos_args_from r mn mx
      else if f_kw_only f then pos_args_from r mn mx
      else let mx' := S mx in
           if has_default f then pos_args_from r mn mx' else pos_args_from r mx' mx'
  end.
Definition pos_args (fs : list fld) : nat * nat := pos_args_from fs 0 0.

Definition fmt_eqb (a b : fmt) : bool :=
  match a, b with FStruct, FStruct | FTuple, FTuple => true | _, _ => false end.
Definition has_fmt (f : fmt) (h : class_hdr) : bool := existsb (fmt_eqb f) (c_in_formats h).
