(* The conversion model: the fast pass [tc] (Converter.try_convert), the
   diagnostic pass [ce] (Converter.collect_errors) and [convert] (Converter.convert),
   each written separately from the corresponding method of every converter class
   -- so that "the two passes agree" is a theorem with content.  Gates, scalar
   tables and except-clauses come from the generated tables. *)
From Coq Require Import ZArith List Bool String.
Require Import Base.PyNum Base.PyStr Base.Outcome Model.Values Model.Vocab Model.Types Model.Expected.
Require Import Gen.GenScalars Gen.GenGates Gen.GenExcept Gen.GenConds.
Import ListNotations.
Open Scope string_scope.

(* ------------------------------------------------------------------ error trees *)

Inductive ekey := KIdx (n : nat) | KVal (v : pyval) | KStrOf (v : pyval).

Inductive enode :=
| EWrongType (expected : string) (actual : pyval) (cause : bool) (info : option string)
| EWrongLen (expected : string) (mn mx : nat) (actual : pyval) (len : nat)
| ECondFailed (expected : string) (actual : pyval) (cname : string) (cause : bool)
| EDupKey (key : pyval) (aliases : list string)
| EProduct (expected : string) (children : list (ekey * enode)) (actual : pyval)
           (missing : list string) (extra : list pyval)
| ESum (children : list enode)
| ENoChild.   (* collect_errors answered None for a member the fast pass rejected *)

(* result of the diagnostic pass *)
Inductive cres := CNone | CTree (e : enode) | CEscape (x : exn).

(* result of Converter.convert *)
Inductive conv_res := COk (v : pyval) | CErr (e : enode) | CThrow (x : exn).

Definition guard {A} (s : site) (r : raw A) : outcome A :=
  match r with ROk a => Ok a | RRaise e => if caught s e then Reject else Escape e end.

(* ------------------------------------------------------------------ leaves *)

Definition b2z (b : bool) : Z := if b then 1%Z else 0%Z.

Definition to_float_raw (z : Z) : raw pyfloat :=
  match float_of_Z z with Some f => ROk f | None => RRaise EOverflowError end.

(* self.ty(val) for the scalar table *)
Definition scalar_ctor (s : scalar) (v : pyval) : raw pyval :=
  match s, v with
  | SBool, VBool b => ROk (VBool b)
  | SInt, VBool b => ROk (VInt (b2z b))
  | SInt, VInt z => ROk (VInt z)
  | SFloat, VBool b => ROk (VFloat (float_of_int_exact (b2z b)))
  | SFloat, VInt z => match to_float_raw z with ROk f => ROk (VFloat f) | RRaise e => RRaise e end
  | SFloat, VFloat f => ROk (VFloat f)
  | SComplex, VBool b => ROk (VComplex (float_of_int_exact (b2z b)) fzero)
  | SComplex, VInt z => match to_float_raw z with ROk f => ROk (VComplex f fzero) | RRaise e => RRaise e end
  | SComplex, VFloat f => ROk (VComplex f fzero)
  | SComplex, VComplex a b => ROk (VComplex a b)
  | SStr, VStr x => ROk (VStr x)
  | SBytes, VBytes x | SBytes, VByteArray x => ROk (VBytes x)
  | SByteArray, VBytes x | SByteArray, VByteArray x => ROk (VByteArray x)
  | _, _ => RRaise ETypeError
  end.

Definition items_of (v : pyval) : list pyval :=
  match v with VList l | VTuple l => l | _ => [] end.
Definition pairs_of (v : pyval) : list (pyval * pyval) :=
  match v with VDict kvs => kvs | _ => [] end.

Definition seq_ctor (c : seqcls) (xs : list pyval) : raw pyval :=
  match c with
  | SeqList => ROk (VList xs)
  | SeqTuple => ROk (VTuple xs)
  | SeqSet => if forallb hashable xs then ROk (VSet (dedup xs)) else RRaise ETypeError
  | SeqFrozenSet => if forallb hashable xs then ROk (VFrozenSet (dedup xs)) else RRaise ETypeError
  end.

Definition dict_ctor (kvs : list (pyval * pyval)) : raw pyval :=
  if forallb (fun kv => hashable (fst kv)) kvs
  then ROk (VDict (fold_left (fun d kv => dict_set (fst kv) (snd kv) d) kvs []))
  else RRaise ETypeError.

(* ------------------------------------------------------------------ conditions *)

(* v ? z for a real number v; None = TypeError; Some None = unordered (NaN) *)
Definition num_cmp (v : pyval) (z : Z) : option (option comparison) :=
  match v with
  | VBool b => Some (Some (Z.compare (b2z b) z))
  | VInt x => Some (Some (Z.compare x z))
  | VFloat f => Some (fcmp f (float_of_int_exact z))
  | _ => None
  end.

Definition cmp_test (test : comparison -> bool) (v : pyval) (z : Z) : raw bool :=
  match num_cmp v z with
  | None => RRaise ETypeError
  | Some None => ROk false
  | Some (Some c) => ROk (test c)
  end.

Definition is_gt c := match c with Gt => true | _ => false end.
Definition is_lt c := match c with Lt => true | _ => false end.
Definition is_ge c := match c with Lt => false | _ => true end.
Definition is_le c := match c with Gt => false | _ => true end.

Definition py_len (v : pyval) : raw nat :=
  match v with
  | VStr s | VBytes s | VByteArray s => ROk (String.length s)
  | VList l | VTuple l | VSet l | VFrozenSet l => ROk (List.length l)
  | VDict kvs => ROk (List.length kvs)
  | _ => RRaise ETypeError
  end.

Definition len_test (o : cmpop) (v : pyval) (n : nat) : raw bool :=
  match py_len v with ROk m => ROk (op_test o (Nat.compare m n)) | RRaise e => RRaise e end.

(* the stock adjective conditions; operator and constant of each come from Gen/GenConds.v *)
Definition eval_adj (a : adj) (v : pyval) : raw bool :=
  match adj_num_test a, adj_len_test a with
  | Some (o, z), _ => cmp_test (op_test o) v z
  | None, Some (o, n) => len_test o v n
  | None, None =>
      if adj_is_finite a then
        match v with
        | VBool _ => ROk true
        | VInt z => match float_of_Z z with Some _ => ROk true | None => RRaise EOverflowError end
        | VFloat f => ROk (f_isfinite f)
        | _ => RRaise ETypeError
        end
      else RRaise EOther
  end.

Section AllAny.
  Context {A : Type} (f : A -> raw bool).
  (* all(f(x) for x in l) / any(...): short-circuit, an exception propagates *)
  Fixpoint raw_all (l : list A) : raw bool :=
    match l with
    | [] => ROk true
    | x :: r => match f x with ROk true => raw_all r | ROk false => ROk false | RRaise e => RRaise e end
    end.
  Fixpoint raw_any (l : list A) : raw bool :=
    match l with
    | [] => ROk false
    | x :: r => match f x with ROk true => ROk true | ROk false => raw_any r | RRaise e => RRaise e end
    end.
End AllAny.

Definition range_atoms (v : pyval) (lo hi : option Z) : list (raw bool) :=
  (map (fun z => cmp_test (op_test valrange_lo_op) v z) (opt_list lo) ++
   map (fun z => cmp_test (op_test valrange_hi_op) v z) (opt_list hi))%list.

Definition len_atoms (v : pyval) (lo hi : option nat) : list (raw bool) :=
  (map (fun n => len_test lenrange_lo_op v n) (opt_list lo) ++
   map (fun n => len_test lenrange_hi_op v n) (opt_list hi))%list.

Fixpoint eval_cond (c : cond) (v : pyval) : raw bool :=
  match c with
  | CAdj a => eval_adj a v
  | CValRange lo hi => raw_all (fun r => r) (range_atoms v lo hi)
  | CLenRange lo hi => raw_all (fun r => r) (len_atoms v lo hi)
  | CAll l => raw_all (fun c' => eval_cond c' v) l
  | CAny l => raw_any (fun c' => eval_cond c' v) l
  | CNot c' => match eval_cond c' v with ROk b => ROk (negb b) | RRaise e => RRaise e end
  | CRaise _ => RRaise EValueError
  | CConst _ b => ROk b
  end.

(* ------------------------------------------------------------------ hooks *)

Definition field_get (n : string) (fs : list (string * pyval)) : option pyval := assoc String.eqb n fs.

Definition run_hook (h : hook) (fields : list (string * pyval)) : raw unit :=
  match h with
  | HNone => ROk tt
  | HRaiseAlways => RRaise EValueError
  | HRaiseIfIntLt f z =>
      match field_get f fields with
      | Some (VInt x) => if (x <? z)%Z then RRaise EValueError else ROk tt
      | _ => ROk tt
      end
  end.

(* ------------------------------------------------------------------ dataclass helpers *)

Definition key_is (k : pyval) (n : string) : bool :=
  match k with VStr s => String.eqb s n | _ => false end.

(* PaneConverter.field_map: Python name and every input name of an init field *)
Definition field_accepts (k : pyval) (f : fld) : bool :=
  f_init f && (key_is k (f_name f) || existsb (key_is k) (f_in_names f)).

Definition smem (n : string) (l : list string) : bool := existsb (String.eqb n) l.
Definition has_value (n : string) (vals : list (string * pyval)) : bool :=
  match field_get n vals with Some _ => true | None => false end.

(* values of the fields after construction: supplied, else default; None = a required init field is missing *)
Fixpoint fill_defaults (fs : list fld) (vals : list (string * pyval)) : option (list (string * pyval)) :=
  match fs with
  | [] => Some []
  | f :: r =>
      match fill_defaults r vals with
      | None => None
      | Some rest =>
          if negb (f_init f) then
            (* a field kept out of __init__ is not bound, but it still holds its default (found on the class)
               or the product of its factory (called at the top of __init__) on every construction path *)
            match f_default f with
            | DValue d | DFactory d => Some ((f_name f, d) :: rest)
            | DNone => Some rest
            end
          else match field_get (f_name f) vals with
               | Some x => Some ((f_name f, x) :: rest)
               | None => match f_default f with
                         | DValue d => Some ((f_name f, d) :: rest)
                         | DFactory d => Some ((f_name f, d) :: rest)
                         | DNone => None
                         end
               end
      end
  end.

Definition init_fields (fs : list fld) : list fld := filter f_init fs.

Definition make_instance (h : class_hdr) (fields : list (string * pyval)) (setf : list string) : pyval :=
  VInst (c_name h) fields setf.

(* build the instance from converted values (by field name): defaults, then __post_init__ *)
Definition construct (h : class_hdr) (fs : list fld) (vals : list (string * pyval)) : option (raw pyval) :=
  match fill_defaults fs vals with
  | None => None
  | Some fields =>
      Some (match run_hook (c_hook h) fields with
            | ROk _ => ROk (make_instance h fields (map fst vals))
            | RRaise e => RRaise e
            end)
  end.

Section ClassLoops.
  Context {T : Type}.
  Variable conv : T -> pyval -> outcome pyval.

  Section WithField.
    Context {C : Type} (k : pyval) (g : fld -> T -> C).
    (* the field a key binds to: the last init field that lists it (dict assignment order) *)
    Fixpoint with_field (fs : list (fld * T)) : option C :=
      match fs with
      | [] => None
      | (f, t) :: r =>
          match with_field r with
          | Some c => Some c
          | None => if field_accepts k f then Some (g f t) else None
          end
      end.
  End WithField.

  (* PaneConverter.try_convert_struct: the loop over the items of the mapping *)
  Section StructTry.
    Variable fs : list (fld * T).
    Variable allow_extra : bool.
    Fixpoint struct_try_loop (kvs : list (pyval * pyval))
             (vals : list (string * pyval)) : outcome (list (string * pyval)) :=
      match kvs with
      | [] => Ok vals
      | (k, x) :: r =>
          match with_field k (fun f t =>
                   if has_value (f_name f) vals then Reject
                   else match conv t x with
                        | Ok y => Ok (vals ++ [(f_name f, y)])%list
                        | Reject => Reject
                        | Escape e => Escape e
                        end) fs with
          | None => if allow_extra then struct_try_loop r vals else Reject
          | Some (Ok vals') => struct_try_loop r vals'
          | Some Reject => Reject
          | Some (Escape e) => Escape e
          end
      end.
  End StructTry.

  (* try_convert_tuple: zip(converters of the init fields, val) *)
  Fixpoint tuple_try_loop (fs : list (fld * T)) (xs : list pyval) : outcome (list (string * pyval)) :=
    match fs, xs with
    | (f, t) :: r, x :: s =>
        if f_init f then
          match conv t x with
          | Ok y => match tuple_try_loop r s with
                    | Ok rest => Ok ((f_name f, y) :: rest)
                    | Reject => Reject
                    | Escape e => Escape e
                    end
          | Reject => Reject
          | Escape e => Escape e
          end
        else tuple_try_loop r xs
    | _, _ => Ok []
    end.

  (* StructConverter.try_convert (struct-literal types) *)
  Section StructLit.
    Context {C : Type} (k : pyval) (g : T -> C).
    Fixpoint with_key (fs : list (string * T)) : option C :=
      match fs with
      | [] => None
      | (n, t) :: r => if key_is k n then Some (g t) else with_key r
      end.
  End StructLit.

  Section LitTry.
    Variable fs : list (string * T).
    Fixpoint lit_try_loop (kvs : list (pyval * pyval)) : outcome (list (pyval * pyval)) :=
      match kvs with
      | [] => Ok []
      | (k, x) :: r =>
          match with_key k (fun t => conv t x) fs with
          | None => Reject
          | Some (Ok y) => match lit_try_loop r with
                           | Ok rest => Ok ((k, y) :: rest)
                           | Reject => Reject
                           | Escape e => Escape e
                           end
          | Some Reject => Reject
          | Some (Escape e) => Escape e
          end
      end.
  End LitTry.

  (* tag dispatch: the variant whose declared tag equals the tag in the data -- same kind and equal, as for a Literal *)
  Section Tag.
    Context {C : Type} (tagv : pyval) (g : T -> C).
    Fixpoint with_variant (vs : list (pyval * T)) : option C :=
      match vs with
      | [] => None
      | (tv, t) :: r => if lit_match tagv tv then Some (g t) else with_variant r
      end.
  End Tag.
End ClassLoops.

Definition has_key (k : pyval) (kvs : list (pyval * pyval)) : bool :=
  existsb (fun kv => py_eqb k (fst kv)) kvs.

Definition lit_missing {T} (fs : list (string * T)) (kvs : list (pyval * pyval)) : list string :=
  filter (fun n => negb (has_key (VStr n) kvs)) (map fst fs).

(* tag and body of a tagged-union value, per layout; None = ParseInterrupt / leaf error *)
Definition dict_remove (k : pyval) (kvs : list (pyval * pyval)) : list (pyval * pyval) :=
  assoc_remove (fun a b => py_eqb a b) k kvs.

Definition tag_extract (tag : string) (lay : layout) (kvs : list (pyval * pyval)) : option (pyval * pyval) :=
  match lay with
  | LInternal =>
      match dict_get (VStr tag) kvs with
      | Some tv => Some (tv, VDict (dict_remove (VStr tag) kvs))
      | None => None
      end
  | LExternal =>
      match kvs with [(k, x)] => Some (k, x) | _ => None end
  | LAdjacent tk ck =>
      if Nat.eqb (List.length kvs) 2 then
        match dict_get (VStr tk) kvs, dict_get (VStr ck) kvs with
        | Some tv, Some body => Some (tv, body)
        | _, _ => None
        end
      else None
  end.

(* enum value lookup: self.val_map[val] *)
Definition enum_lookup (ename : string) (members : list (string * pyval)) (x : pyval) : raw pyval :=
  if hashable x then
    match find (fun m => lit_match x (snd m)) members with
    | Some (mname, mval) => ROk (VEnum ename mname mval)
    | None => RRaise EKeyError
    end
  else RRaise ETypeError.

(* conversion at a "head" type: what EnumConverter.inner_conv does (scalars / None / unions of them) *)
Definition tc_head (t : ty) (v : pyval) : outcome pyval :=
  match t with
  | TAny => Ok v
  | TNone => match v with VNone => Ok VNone | _ => Reject end
  | TScalar s => if scalar_allowed s (kind_of v) then guard S_scalar_try (scalar_ctor s v) else Reject
  | _ => Reject
  end.
Definition tc_enum_inner (members : list (string * pyval)) (v : pyval) : outcome pyval :=
  match enum_inner members with
  | TUnion ts => first_ok (fun h => tc_head h v) ts
  | h => tc_head h v
  end.

(* ------------------------------------------------------------------ the fast pass *)

Fixpoint tc (t : ty) (v : pyval) {struct t} : outcome pyval :=
  match t with
  | TAny => Ok v
  | TNone => match v with VNone => Ok VNone | _ => Reject end
  | TScalar s =>
      if scalar_allowed s (kind_of v) then guard S_scalar_try (scalar_ctor s v) else Reject
  | TSeq c e =>
      if gate_sequence (kind_of v) then
        match map_out (tc e) (items_of v) with
        | Ok xs => guard S_seq_try (seq_ctor c xs)
        | Reject => Reject
        | Escape x => if caught S_seq_try x then Reject else Escape x
        end
      else Reject
  | TTuple es =>
      if gate_sequence (kind_of v) && Nat.eqb (List.length (items_of v)) (List.length es) then
        match zip_out tc es (items_of v) with
        | Ok xs => Ok (VTuple xs)
        | Reject => Reject
        | Escape x => Escape x
        end
      else Reject
  | TDict kt vt =>
      if gate_mapping (kind_of v) then
        match map_out (fun kv => match tc kt (fst kv) with
                                 | Ok k' => match tc vt (snd kv) with
                                            | Ok v' => Ok (k', v')
                                            | Reject => Reject
                                            | Escape x => Escape x
                                            end
                                 | Reject => Reject
                                 | Escape x => Escape x
                                 end) (pairs_of v) with
        | Ok kvs => guard S_dict_try (dict_ctor kvs)
        | Reject => Reject
        | Escape x => if caught S_dict_try x then Reject else Escape x
        end
      else Reject
  | TStruct fs =>
      if gate_mapping (kind_of v) then
        match lit_try_loop tc fs (pairs_of v) with
        | Ok d => match lit_missing fs (pairs_of v) with [] => Ok (VDict d) | _ => Reject end
        | Reject => Reject
        | Escape x => Escape x
        end
      else Reject
  | TUnion ms => first_ok (fun m => tc m v) ms
  | TLiteral vals => if existsb (lit_match v) vals then Ok v else Reject
  | TEnum n members =>
      match tc_enum_inner members v with
      | Ok x => guard S_enum_try (enum_lookup n members x)
      | Reject => Reject
      | Escape x => Escape x
      end
  | TClass h fs =>
      if pane_seq_gate_try (kind_of v) then
        if has_fmt FTuple h then
          let '(mn, mx) := pos_args (map fst fs) in
          let n := List.length (items_of v) in
          if (mn <=? n)%nat && (n <=? mx)%nat then
            match tuple_try_loop tc fs (items_of v) with
            | Ok vals =>
                match construct h (map fst fs) vals with
                | Some r => guard S_post_tuple_try r
                | None => guard S_post_tuple_try (RRaise ETypeError)   (* sig.bind: missing argument *)
                end
            | Reject => Reject
            | Escape x => Escape x
            end
          else Reject
        else Reject
      else if pane_map_gate_try (kind_of v) then
        if has_fmt FStruct h then
          match struct_try_loop tc fs (c_allow_extra h) (pairs_of v) [] with
          | Ok vals =>
              match construct h (map fst fs) vals with
              | Some r => guard S_post_struct_try r
              | None => Reject                 (* missing field *)
              end
          | Reject => Reject
          | Escape x => Escape x
          end
        else Reject
      else Reject
  | TCond inner c =>
      match tc inner v with
      | Ok x => match guard S_cond_try (eval_cond c x) with
                | Ok true => Ok x
                | Ok false => Reject
                | Reject => Reject
                | Escape e => Escape e
                end
      | Reject => Reject
      | Escape x => Escape x
      end
  | TTagged tag lay vs =>
      if gate_mapping (kind_of v) then
        match tag_extract tag lay (pairs_of v) with
        | None => Reject
        | Some (tagv, body) =>
            if hashable tagv then
              match with_variant tagv (fun t' => tc t' body) vs with
              | Some r => r
              | None => guard S_tag_try (RRaise EKeyError)
              end
            else guard S_tag_try (RRaise ETypeError)
        end
      else Reject
  end.

(* ------------------------------------------------------------------ the diagnostic pass *)

Definition wrong (t : ty) (v : pyval) : cres := CTree (EWrongType (expected t false) v false None).
Definition wrong_cause (t : ty) (v : pyval) : cres := CTree (EWrongType (expected t false) v true None).

Definition guard_c (s : site) (r : raw unit) (on_raise : cres) : cres :=
  match r with ROk _ => CNone | RRaise e => if caught s e then on_raise else CEscape e end.

Definition raw_unit {A} (r : raw A) : raw unit := match r with ROk _ => ROk tt | RRaise e => RRaise e end.

(* Converter.convert from the two passes *)
Definition convert_with (try_r : outcome pyval) (col : unit -> cres) : conv_res :=
  match try_r with
  | Ok x => COk x
  | Escape e => CThrow e
  | Reject => match col tt with
              | CTree e => CErr e
              | CNone => CThrow ERuntimeBug
              | CEscape e => CThrow e
              end
  end.

Definition strof_eqb (a b : ekey) : bool :=
  match a, b with
  | KStrOf x, KStrOf y =>
      match py_str x, py_str y with
      | Some s, Some t => String.eqb s t
      | _, _ => val_eqb x y
      end
  | KIdx n, KIdx m => Nat.eqb n m
  | KVal x, KVal y => val_eqb x y
  | _, _ => false
  end.

Definition node_set (k : ekey) (e : enode) (nodes : list (ekey * enode)) : list (ekey * enode) :=
  assoc_set strof_eqb k e nodes.

Section CollectLoops.
  Context {T : Type}.
  Variable conv : T -> pyval -> outcome pyval.
  Variable col : T -> pyval -> cres.

  Definition convert_elem (t : T) (x : pyval) : conv_res :=
    convert_with (conv t x) (fun _ => col t x).

  (* TupleConverter.collect_errors *)
  Fixpoint tuple_collect (i : nat) (ts : list T) (xs : list pyval) : raw (list (ekey * enode)) :=
    match ts, xs with
    | t :: r, x :: s =>
        match col t x with
        | CNone => tuple_collect (S i) r s
        | CTree e => match tuple_collect (S i) r s with
                     | ROk rest => ROk ((KIdx i, e) :: rest)
                     | RRaise z => RRaise z
                     end
        | CEscape z => RRaise z
        end
    | _, _ => ROk []
    end.

  (* StructConverter.collect_errors: children and extra keys *)
  Section LitCollect.
    Variable fs : list (string * T).
    Fixpoint lit_collect (kvs : list (pyval * pyval))
      : raw (list (ekey * enode) * list pyval) :=
      match kvs with
      | [] => ROk ([], [])
      | (k, x) :: r =>
          match with_key k (fun t => col t x) fs with
          | None => match lit_collect r with
                    | ROk (ch, ex) => ROk (ch, k :: ex)
                    | RRaise z => RRaise z
                    end
          | Some CNone => lit_collect r
          | Some (CTree e) => match lit_collect r with
                              | ROk (ch, ex) => ROk ((KVal k, e) :: ch, ex)
                              | RRaise z => RRaise z
                              end
          | Some (CEscape z) => RRaise z
          end
      end.
  End LitCollect.

  (* PaneConverter.collect_errors_struct: loop state = (values, children, extra, seen) *)
  Section StructCollect.
    Variable fs : list (fld * T).
    Variable allow_extra : bool.
    Fixpoint struct_collect (kvs : list (pyval * pyval))
             (vals : list (string * pyval)) (ch : list (ekey * enode)) (ex : list pyval) (seen : list string)
      : raw (list (string * pyval) * list (ekey * enode) * list pyval * list string) :=
      match kvs with
      | [] => ROk (vals, ch, ex, seen)
      | (k, x) :: r =>
          match with_field k (fun f t =>
                   if smem (f_name f) seen
                   then inl (EDupKey k (f_in_names f))
                   else inr (f_name f, convert_elem t x)) fs with
          | None => struct_collect r vals ch (if allow_extra then ex else (ex ++ [k])%list) seen
          | Some (inl dup) => struct_collect r vals (ch ++ [(KVal k, dup)])%list ex seen
          | Some (inr (n, COk y)) => struct_collect r (vals ++ [(n, y)])%list ch ex (n :: seen)
          | Some (inr (n, CErr e)) => struct_collect r vals (ch ++ [(KVal k, e)])%list ex (n :: seen)
          | Some (inr (_, CThrow z)) => RRaise z
          end
      end.
  End StructCollect.

  (* collect_errors_tuple *)
  Fixpoint tuple_cls_collect (i : nat) (fs : list (fld * T)) (xs : list pyval)
    : raw (list (string * pyval) * list (ekey * enode)) :=
    match fs, xs with
    | (f, t) :: r, x :: s =>
        if f_init f then
          match convert_elem t x with
          | COk y => match tuple_cls_collect (S i) r s with
                     | ROk (vals, ch) => ROk ((f_name f, y) :: vals, ch)
                     | RRaise z => RRaise z
                     end
          | CErr e => match tuple_cls_collect (S i) r s with
                      | ROk (vals, ch) => ROk (vals, (KIdx i, e) :: ch)
                      | RRaise z => RRaise z
                      end
          | CThrow z => RRaise z
          end
        else tuple_cls_collect i r xs
    | _, _ => ROk ([], [])
    end.

  (* UnionConverter.collect_errors *)
  Section UnionLoop.
    Variable v : pyval.
    Fixpoint union_collect (ms : list T) : raw (option (list enode)) :=   (* None = some member accepted *)
      match ms with
      | [] => ROk (Some [])
      | m :: r =>
          match conv m v with
          | Ok _ => ROk None
          | Escape z => RRaise z
          | Reject =>
              match col m v with
              | CEscape z => RRaise z
              | c => match union_collect r with
                     | ROk (Some rest) => ROk (Some ((match c with CTree e => e | _ => ENoChild end) :: rest))
                     | other => other
                     end
              end
          end
      end.
  End UnionLoop.
End CollectLoops.

Section SeqCollect.
  Variable try_f : pyval -> outcome pyval.
  Variable col_f : pyval -> cres.
  (* SequenceConverter.collect_errors: self.v_conv.convert(v) for every element *)
  Fixpoint seq_collect (i : nat) (xs : list pyval) : raw (list pyval * list (ekey * enode)) :=
    match xs with
    | [] => ROk ([], [])
    | x :: r =>
        match convert_with (try_f x) (fun _ => col_f x) with
        | COk y => match seq_collect (S i) r with
                   | ROk (vals, ch) => ROk (y :: vals, ch)
                   | RRaise z => RRaise z
                   end
        | CErr e => match seq_collect (S i) r with
                    | ROk (vals, ch) => ROk (vals, (KIdx i, e) :: ch)
                    | RRaise z => RRaise z
                    end
        | CThrow z => RRaise z
        end
    end.

  (* DictConverter.collect_errors: nodes[str(k)], a value error overwrites a key error *)
  Variable kcol vcol : pyval -> cres.
  Fixpoint dict_collect (kvs : list (pyval * pyval)) (nodes : list (ekey * enode)) : raw (list (ekey * enode)) :=
    match kvs with
    | [] => ROk nodes
    | (k, x) :: r =>
        match kcol k with
        | CEscape z => RRaise z
        | ck =>
            let nodes1 := match ck with CTree e => node_set (KStrOf k) e nodes | _ => nodes end in
            match vcol x with
            | CEscape z => RRaise z
            | cv =>
                let nodes2 := match cv with CTree e => node_set (KStrOf k) e nodes1 | _ => nodes1 end in
                dict_collect r nodes2
            end
        end
    end.
End SeqCollect.

Definition ce_head (t : ty) (v : pyval) : cres :=
  match t with
  | TAny => CNone
  | TNone => match v with VNone => CNone | _ => wrong TNone v end
  | TScalar s =>
      if scalar_allowed s (kind_of v) then
        guard_c S_scalar_collect (raw_unit (scalar_ctor s v)) (wrong_cause (TScalar s) v)
      else wrong (TScalar s) v
  | _ => CNone
  end.

Definition ce_enum_inner (members : list (string * pyval)) (v : pyval) : cres :=
  match enum_inner members with
  | TUnion ts =>
      match union_collect tc_head ce_head v ts with
      | ROk None => CNone
      | ROk (Some ch) => CTree (ESum ch)
      | RRaise z => CEscape z
      end
  | h => ce_head h v
  end.

Definition missing_required (fs : list fld) (seen : list string) : list string :=
  map f_name (filter (fun f => f_init f && negb (smem (f_name f) seen) && negb (has_default f)) fs).

Fixpoint ce (t : ty) (v : pyval) {struct t} : cres :=
  match t with
  | TAny => CNone
  | TNone => match v with VNone => CNone | _ => wrong t v end
  | TScalar s =>
      if scalar_allowed s (kind_of v) then
        guard_c S_scalar_collect (raw_unit (scalar_ctor s v)) (wrong_cause t v)
      else wrong t v
  | TSeq c e =>
      if gate_sequence (kind_of v) then
        match seq_collect (tc e) (ce e) 0 (items_of v) with
        | RRaise z => CEscape z
        | ROk (vals, []) => guard_c S_seq_collect (raw_unit (seq_ctor c vals)) (wrong_cause t v)
        | ROk (_, ch) => CTree (EProduct (expected t false) ch v [] [])
        end
      else wrong t v
  | TTuple es =>
      if gate_sequence (kind_of v) && Nat.eqb (List.length (items_of v)) (List.length es) then
        match tuple_collect ce 0 es (items_of v) with
        | RRaise z => CEscape z
        | ROk [] => CNone
        | ROk ch => CTree (EProduct (expected t false) ch v [] [])
        end
      else wrong t v
  | TDict kt vt =>
      if gate_mapping (kind_of v) then
        match dict_collect (ce kt) (ce vt) (pairs_of v) [] with
        | RRaise z => CEscape z
        | ROk [] =>
            (* "try to construct val": the fast conversions again, inside try/except Exception *)
            match map_out (fun kv => match tc kt (fst kv) with
                                     | Ok k' => match tc vt (snd kv) with
                                                | Ok v' => Ok (k', v')
                                                | Reject => Reject
                                                | Escape x => Escape x
                                                end
                                     | Reject => Reject
                                     | Escape x => Escape x
                                     end) (pairs_of v) with
            | Ok kvs => guard_c S_dict_collect (raw_unit (dict_ctor kvs)) (wrong_cause t v)
            | Reject => if catch_all S_dict_collect then wrong_cause t v else CEscape EOther
            | Escape x => if caught S_dict_collect x then wrong_cause t v else CEscape x
            end
        | ROk nodes => CTree (EProduct (expected t false) nodes v [] [])
        end
      else wrong t v
  | TStruct fs =>
      if gate_mapping (kind_of v) then
        match lit_collect ce fs (pairs_of v) with
        | RRaise z => CEscape z
        | ROk (ch, ex) =>
            match ch, ex, lit_missing fs (pairs_of v) with
            | [], [], [] => CNone
            | _, _, miss => CTree (EProduct (expected t false) ch v miss ex)
            end
        end
      else wrong t v
  | TUnion ms =>
      match union_collect tc ce v ms with
      | ROk None => CNone
      | ROk (Some ch) => CTree (ESum ch)
      | RRaise z => CEscape z
      end
  | TLiteral vals => if existsb (lit_match v) vals then CNone else wrong t v
  | TEnum n members =>
      match tc_enum_inner members v with
      | Reject => ce_enum_inner members v
      | Escape z => CEscape z
      | Ok x =>
          guard_c S_enum_collect (raw_unit (enum_lookup n members x)) (CTree (EWrongType (expected t false) v false None))
      end
  | TClass h fs =>
      let name := c_name h in
      if pane_seq_gate_collect (kind_of v) then
        if has_fmt FTuple h then
          let '(mn, mx) := pos_args (map fst fs) in
          let n := List.length (items_of v) in
          if (mn <=? n)%nat && (n <=? mx)%nat then
            match tuple_cls_collect tc ce 0 fs (items_of v) with
            | RRaise z => CEscape z
            | ROk (vals, []) =>
                match construct h (map fst fs) vals with
                | Some r => guard_c S_post_tuple_collect (raw_unit r) (CTree (EWrongType ("tuple " ++ name) v true None))
                | None => guard_c S_post_tuple_collect (RRaise ETypeError) (CTree (EWrongType ("tuple " ++ name) v true None))
                end
            | ROk (_, ch) => CTree (EProduct ("tuple " ++ name) ch v [] [])
            end
          else CTree (EWrongLen ("tuple " ++ name) mn mx v n)
        else CTree (EWrongType ("struct " ++ name) v false None)
      else if pane_map_gate_collect (kind_of v) then
        if has_fmt FStruct h then
          match struct_collect tc ce fs (c_allow_extra h) (pairs_of v) [] [] [] [] with
          | RRaise z => CEscape z
          | ROk (vals, ch, ex, seen) =>
              match ch, ex, missing_required (map fst fs) seen with
              | [], [], [] =>
                  match construct h (map fst fs) vals with
                  | Some r => guard_c S_post_struct_collect (raw_unit r) (CTree (EWrongType ("struct " ++ name) v true None))
                  | None => guard_c S_post_struct_collect (RRaise ETypeError) (CTree (EWrongType ("struct " ++ name) v true None))
                  end
              | _, _, miss => CTree (EProduct ("struct " ++ name) ch v miss ex)
              end
          end
        else CTree (EWrongType ("tuple " ++ name) v false None)
      else CTree (EWrongType name v false None)
  | TCond inner c =>
      match tc inner v with
      | Reject => ce inner v
      | Escape z => CEscape z
      | Ok x =>
          match eval_cond c x with
          | ROk true => CNone
          | ROk false => CTree (ECondFailed (expected t false) v (cond_name c) false)
          | RRaise e => if caught S_cond_collect e
                        then CTree (ECondFailed (expected t false) v (cond_name c) true)
                        else CEscape e
          end
      end
  | TTagged tag lay vs =>
      if gate_mapping (kind_of v) then
        match tag_extract tag lay (pairs_of v) with
        | None =>
            match lay with
            | LInternal => CTree (EWrongType ("mapping with key '" ++ tag ++ "' => " ++ tag_expected vs) v false None)
            | LExternal => wrong t v
            | LAdjacent tk ck => CTree (EWrongType ("mapping with keys '" ++ tk ++ "' and '" ++ ck ++ "'") v false None)
            end
        | Some (tagv, body) =>
            let bad := CTree (EWrongType ("tag '" ++ tag ++ "' one of " ++ tag_expected vs) tagv false None) in
            if hashable tagv then
              match with_variant tagv (fun t' => ce t' body) vs with
              | Some r => r
              | None => guard_c S_tag_collect (RRaise EKeyError) bad
              end
            else guard_c S_tag_collect (RRaise ETypeError) bad
        end
      else wrong t v
  end.

(* Converter.convert / pane.from_data *)
Definition convert (t : ty) (v : pyval) : conv_res :=
  convert_with (tc t v) (fun _ => ce t v).
