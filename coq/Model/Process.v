(* C17: model of classes._process: collection of field specifications over the MRO
   (dict update: a redeclared field overrides in place), keyword-only marking, type-variable
   substitution at each generic level, and the stable move of keyword-only fields to the end. *)
From Coq Require Import List Bool String Arith.
Import ListNotations.
Open Scope string_scope.

(* type expressions, as far as substitution is concerned *)
Inductive tyexp := EVar (n : nat) | EConst (s : string) | EApp (s : string) (args : list tyexp).

Fixpoint tsubst (sigma : nat -> option tyexp) (t : tyexp) {struct t} : tyexp :=
  match t with
  | EVar n => match sigma n with Some u => u | None => EVar n end
  | EConst s => EConst s
  | EApp s args => EApp s (map (tsubst sigma) args)
  end.

Definition tcompose (sigma tau : nat -> option tyexp) : nat -> option tyexp :=
  fun n => match tau n with Some u => Some (tsubst sigma u) | None => sigma n end.

Record fdesc := mkDesc { d_kw_only : bool; d_has_default : bool; d_ty : tyexp }.

(* a class body: annotations in order; KW_ONLY marks everything after it keyword-only *)
Inductive item := AField (name : string) (kw_only has_default : bool) (t : tyexp) | AKwMarker.

Record level := mkLevel { l_kw_only : bool; l_items : list item; l_bound : list (nat * tyexp) }.

Fixpoint own_specs (kw : bool) (items : list item) : list (string * fdesc) :=
  match items with
  | [] => []
  | AKwMarker :: r => own_specs true r
  | AField n k d t :: r => (n, mkDesc (k || kw) d t) :: own_specs kw r
  end.

(* fields declared by a bare annotation (no field(...) object, no value): candidates for an inherited default *)
Fixpoint plain_names (items : list item) : list string :=
  match items with
  | [] => []
  | AKwMarker :: r => plain_names r
  | AField n k d _ :: r => if negb k && negb d then n :: plain_names r else plain_names r
  end.

Fixpoint assoc_set_s {V} (k : string) (v : V) (l : list (string * V)) : list (string * V) :=
  match l with
  | [] => [(k, v)]
  | (k', v') :: r => if String.eqb k k' then (k', v) :: r else (k', v') :: assoc_set_s k v r
  end.
Fixpoint assoc_s {V} (k : string) (l : list (string * V)) : option V :=
  match l with [] => None | (k', v) :: r => if String.eqb k k' then Some v else assoc_s k r end.

(* dict.update *)
Definition dict_update {V} (specs own : list (string * V)) : list (string * V) :=
  fold_left (fun acc kv => assoc_set_s (fst kv) (snd kv) acc) own specs.

Definition sigma_of (b : list (nat * tyexp)) : nat -> option tyexp :=
  fun n => match find (fun p => Nat.eqb (fst p) n) b with Some p => Some (snd p) | None => None end.

Definition subst_desc (b : list (nat * tyexp)) (d : fdesc) : fdesc :=
  mkDesc (d_kw_only d) (d_has_default d) (tsubst (sigma_of b) (d_ty d)).

(* fields declared with a value of their own at a level: their class keeps the value as a class attribute *)
Fixpoint default_names (items : list item) : list string :=
  match items with
  | [] => []
  | AKwMarker :: r => default_names r
  | AField n _ d _ :: r => if d then n :: default_names r else default_names r
  end.

(* one level of the MRO walk: update, then apply this level's bound type variables to everything *)
(* a field redeclared by a bare annotation takes its default from getattr(cls, name): the class attribute of the NEAREST
   ancestor that declared the field with a value -- a redeclaration without a value in between removes the attribute from its
   own class only, so the older value shows through (as in the standard library's dataclasses).  [attrs] = the names some
   earlier level declared with a value. *)
Definition inherit_defaults (plain attrs : list string) (own : list (string * fdesc)) : list (string * fdesc) :=
  map (fun kv => (fst kv,
                  if existsb (String.eqb (fst kv)) plain
                  then mkDesc (d_kw_only (snd kv)) (existsb (String.eqb (fst kv)) attrs) (d_ty (snd kv))
                  else snd kv)) own.

Definition step_level (attrs : list string) (specs : list (string * fdesc)) (lv : level) : list (string * fdesc) :=
  map (fun kv => (fst kv, subst_desc (l_bound lv) (snd kv)))
      (dict_update specs (inherit_defaults (plain_names (l_items lv)) attrs (own_specs (l_kw_only lv) (l_items lv)))).

(* levels from the most basic class to the class itself (reversed MRO) *)
Fixpoint collect_from (attrs : list string) (specs : list (string * fdesc)) (levels : list level) : list (string * fdesc) :=
  match levels with
  | [] => specs
  | lv :: r => collect_from (default_names (l_items lv) ++ attrs)%list (step_level attrs specs lv) r
  end.
Definition collect (levels : list level) : list (string * fdesc) := collect_from [] [] levels.

Definition fields_of (levels : list level) : list (string * fdesc) :=
  let specs := collect levels in
  (filter (fun kv => negb (d_kw_only (snd kv))) specs ++ filter (fun kv => d_kw_only (snd kv)) specs)%list.

(* PaneInfo.pos_args over the final field list (all fields init) *)
Fixpoint pos_range (fs : list (string * fdesc)) (mn mx : nat) : nat * nat :=
  match fs with
  | [] => (mn, mx)
  | (_, d) :: r => if d_kw_only d then pos_range r mn mx
                   else if d_has_default d then pos_range r mn (S mx) else pos_range r (S mx) (S mx)
  end.
