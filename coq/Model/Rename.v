(* Model of pane/field.py: _split_field_name, _CONVERT_FNS, rename_field.
   The tables come from Gen/GenRename.v (re-extracted from the source on every run). *)
From Coq Require Import Ascii String List Bool Arith.
Require Import Base.PyStr Base.Styles Gen.GenRename.
Import ListNotations.
Open Scope string_scope.
Open Scope nat_scope.

Definition is_part_sep (c : ascii) : bool := mem_ascii c part_sep_chars.
Definition is_cap (c : ascii) : bool :=
  let n := nat_of_ascii c in (cap_lo <=? n) && (n <=? cap_hi).

(* split_case: a part that is all-upper, all-lower or title-cased is one word *)
Definition split_case (part : string) : list string :=
  if existsb (fun t => apply_casetest t part) shortcut_tests then [part]
  else split_caps is_cap part.

(* _split_field_name: None models `raise ValueError` *)
Definition split_field_name (field : string) : option (list string) :=
  let parts := split_on is_part_sep field in
  if forallb (fun p => negb (is_empty p)) parts
  then Some (flat_map split_case parts)
  else None.

Definition join_style (s : style) (parts : list string) : string :=
  match parts with
  | [] => EmptyString
  | p :: ps =>
      join (style_sep s)
           (apply_casefn (style_first s) p :: map (apply_casefn (style_rest s)) ps)
  end.

(* rename_field(field, style) for a style that is not None *)
Definition rename_field (field : string) (s : style) : option string :=
  match split_field_name field with
  | Some parts => Some (join_style s parts)
  | None => None
  end.
