(* C10: models of pane.util.KeyCache (unbounded and LRU) and of the converter cache
   keyed on id(type object), in a world where the interpreter may hand the id of a
   collected object to the next object it creates. *)
From Coq Require Import List Bool Arith Lia.
Require Import Gen.GenCache.
Import ListNotations.

(* ------------------------------------------------------------------ KeyCache *)
Section KeyCache.
  Variable V : Type.
  Variable f : nat -> V.                (* the memoised function, keys are naturals *)

  Fixpoint lookup (k : nat) (c : list (nat * V)) : option V :=
    match c with [] => None | (k', v) :: r => if Nat.eqb k k' then Some v else lookup k r end.
  Fixpoint remove_key (k : nat) (c : list (nat * V)) : list (nat * V) :=
    match c with [] => [] | (k', v) :: r => if Nat.eqb k k' then r else (k', v) :: remove_key k r end.

  (* one call; [true] = the inner function was called *)
  Definition ucall (c : list (nat * V)) (k : nat) : list (nat * V) * V * bool :=
    match lookup k c with
    | Some v => (c, v, false)
    | None => (c ++ [(k, f k)], f k, true)
    end.

  (* LRU, maxsize m >= 1; the list is in recency order, oldest first *)
  Definition lcall (m : nat) (c : list (nat * V)) (k : nat) : list (nat * V) * V * bool :=
    match lookup k c with
    | Some v => (remove_key k c ++ [(k, v)], v, false)
    | None => ((if List.length c <? m then c else tl c) ++ [(k, f k)], f k, true)
    end.

  Definition run_calls (call : list (nat * V) -> nat -> list (nat * V) * V * bool) (ks : list nat)
    : list (nat * V) * list (V * bool) :=
    fold_left (fun st k => let '(c, out) := st in let '(c', v, b) := call c k in (c', out ++ [(v, b)])) ks ([], []).

  (* lock-granularity concurrency: a call is  [locked lookup] ; [unlocked compute] ; [locked insert] *)
  Inductive cstep := SLookup (t k : nat) | SInsert (t : nat).
  Record cstate := mkC { c_cache : list (nat * V); c_pending : list (nat * (nat * V)) (* thread -> (key, computed) *) }.

  Fixpoint pend_get (t : nat) (p : list (nat * (nat * V))) : option (nat * V) :=
    match p with [] => None | (t', kv) :: r => if Nat.eqb t t' then Some kv else pend_get t r end.
  Fixpoint pend_del (t : nat) (p : list (nat * (nat * V))) : list (nat * (nat * V)) :=
    match p with [] => [] | (t', kv) :: r => if Nat.eqb t t' then r else (t', kv) :: pend_del t r end.

  Definition conc_step (m : option nat) (s : cstate) (st : cstep) : cstate :=
    match st with
    | SLookup t k =>
        match lookup k (c_cache s) with
        | Some v => match m with
                    | None => s
                    | Some _ => mkC (remove_key k (c_cache s) ++ [(k, v)]) (c_pending s)
                    end
        | None => mkC (c_cache s) ((t, (k, f k)) :: c_pending s)          (* compute outside the lock *)
        end
    | SInsert t =>
        match pend_get t (c_pending s) with
        | None => s
        | Some (k, v) =>
            let p := pend_del t (c_pending s) in
            match lookup k (c_cache s) with
            | Some _ => mkC (c_cache s) p                                    (* `if key in self.cache: pass` *)
            | None =>
                match m with
                | None => mkC (c_cache s ++ [(k, v)]) p
                | Some mx => mkC ((if List.length (c_cache s) <? mx then c_cache s else tl (c_cache s)) ++ [(k, v)]) p
                end
            end
        end
    end.
End KeyCache.

(* ------------------------------------------------------------------ the converter cache and object identity *)

Section World.
  Variable S : Type.                      (* structure of a type expression *)
  Variable pins : bool.                   (* does a cache entry keep its type object alive? *)

  Record obj := mkObj { oid : nat; ostruct : S }.
  (* live: objects some reference keeps alive (the user's, or -- when [pins] -- the cache's);
     user: ids the user still holds *)
  Record world := mkW { live : list obj; user : list nat; cache : list (nat * S) }.

  Inductive wop :=
  | Build (i : nat) (s : S)      (* the interpreter creates a type object and picks id i *)
  | Drop (i : nat)               (* the user drops the reference; the object is collected unless pinned *)
  | Lookup (i : nat).            (* make_converter(object with id i) *)

  Definition ids (l : list obj) : list nat := map oid l.
  Definition mem (i : nat) (l : list nat) : bool := existsb (Nat.eqb i) l.
  Fixpoint find_obj (i : nat) (l : list obj) : option obj :=
    match l with [] => None | o :: r => if Nat.eqb i (oid o) then Some o else find_obj i r end.
  Fixpoint cache_get (i : nat) (c : list (nat * S)) : option S :=
    match c with [] => None | (i', s) :: r => if Nat.eqb i i' then Some s else cache_get i r end.

  (* a step is enabled only if it is physically possible: a new object cannot receive
     the id of an object that is still alive; lookups need an object the user holds *)
  Definition wstep (w : world) (o : wop) : world * option S :=
    match o with
    | Build i s =>
        if mem i (ids (live w)) then (w, None)
        else (mkW (mkObj i s :: live w) (i :: user w) (cache w), None)
    | Drop i =>
        let pinned := pins && mem i (map fst (cache w)) in
        (mkW (if pinned then live w else filter (fun o => negb (Nat.eqb (oid o) i)) (live w))
             (filter (fun j => negb (Nat.eqb j i)) (user w)) (cache w), None)
    | Lookup i =>
        if mem i (user w) then
          match find_obj i (live w) with
          | None => (w, None)
          | Some ob =>
              match cache_get i (cache w) with
              | Some s => (w, Some s)                                  (* hit: whatever was stored under this id *)
              | None => (mkW (live w) (user w) ((i, ostruct ob) :: cache w), Some (ostruct ob))
              end
          end
        else (w, None)
    end.

  Definition winit : world := mkW [] [] [].
  Definition wrun (ops : list wop) : world := fold_left (fun w o => fst (wstep w o)) ops winit.
End World.
