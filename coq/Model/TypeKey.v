(* C10 / C11 / C17: the cache of generic subclasses  G[params]  (pane/classes.py: __class_getitem__,
   _ordered_type_key, _make_subclass under functools.lru_cache).
   Type expressions as the typing module compares them: == on a Union ignores the order of the
   members, == on a Literal ignores the order of the values; everything else is structural.
   [okey] is pane's _ordered_type_key, which keeps those orders.  The subclass cache is keyed on
   (params compared by ==, ordered key); its transparency is the statement that a hit always returns
   the class built from a structurally identical parameter. *)
From Coq Require Import ZArith List Bool Arith.
Import ListNotations.

Inductive tx :=
| XAtom (n : nat)                      (* a class, a type variable, None, ... : compared by identity *)
| XApp (o : nat) (args : list tx)      (* o[args]: list[int], Dict[str, X], tuple[X, Y] *)
| XUnion (ms : list tx)                (* Union[...] / X | Y *)
| XLit (vals : list (nat * Z)).        (* Literal[...]: (type of the value, value) *)

Section TxInd.
  Variable P : tx -> Prop.
  Hypothesis HAtom : forall n, P (XAtom n).
  Hypothesis HApp : forall o args, Forall P args -> P (XApp o args).
  Hypothesis HUnion : forall ms, Forall P ms -> P (XUnion ms).
  Hypothesis HLit : forall vals, P (XLit vals).
  Fixpoint tx_ind' (x : tx) : P x :=
    let fix go (l : list tx) : Forall P l :=
      match l with [] => Forall_nil P | a :: r => Forall_cons a (tx_ind' a) (go r) end in
    match x with
    | XAtom n => HAtom n
    | XApp o args => HApp o args (go args)
    | XUnion ms => HUnion ms (go ms)
    | XLit vals => HLit vals
    end.
End TxInd.

(* ---- Python's == on typing objects ---- *)
Definition lit_eqb (a b : nat * Z) : bool := Nat.eqb (fst a) (fst b) && Z.eqb (snd a) (snd b).

Fixpoint py_teq (a b : tx) {struct a} : bool :=
  match a, b with
  | XAtom n, XAtom m => Nat.eqb n m
  | XApp o args, XApp o' args' =>
      Nat.eqb o o' &&
      (fix all2 (l : list tx) (l' : list tx) {struct l} : bool :=
         match l, l' with
         | [], [] => true
         | x :: r, y :: r' => py_teq x y && all2 r r'
         | _, _ => false
         end) args args'
  | XUnion ms, XUnion ms' =>
      (* frozenset(args) == frozenset(args'): each member equals some member of the other side *)
      (fix incl1 (l : list tx) : bool :=
         match l with [] => true | x :: r => existsb (fun y => py_teq x y) ms' && incl1 r end) ms &&
      (fix incl2 (l' : list tx) : bool :=
         match l' with
         | [] => true
         | y :: r' => (fix mem (l : list tx) : bool := match l with [] => false | x :: r => py_teq x y || mem r end) ms && incl2 r'
         end) ms'
  | XLit vs, XLit vs' =>
      forallb (fun v => existsb (lit_eqb v) vs') vs && forallb (fun v => existsb (lit_eqb v) vs) vs'
  | _, _ => false
  end.

(* ---- pane's ordered key: nested tuples ---- *)
Inductive key := KLeaf (n : nat) | KVal (z : Z) | KTup (l : list key).

(* the two origins that are not classes: typing.Union and typing.Literal *)
Definition o_union : nat := 0.
Definition o_literal : nat := 1.

Fixpoint okey (a : tx) : key :=
  match a with
  | XAtom n => KLeaf n
  | XApp o args => KTup [KLeaf o; KTup (map okey args)]
  | XUnion ms => KTup [KLeaf o_union; KTup (map okey ms)]
  | XLit vals => KTup [KLeaf o_literal; KTup (map (fun v => KTup [KLeaf (fst v); KVal (snd v)]) vals)]
  end.

(* the key BEFORE the repairs 82bf6de / 9963aac: the parameter itself, compared by == *)
Definition old_same_class (a b : tx) : bool := py_teq a b.

Fixpoint key_eqb (a b : key) {struct a} : bool :=
  match a, b with
  | KLeaf n, KLeaf m => Nat.eqb n m
  | KVal x, KVal y => Z.eqb x y
  | KTup l, KTup l' =>
      (fix all2 (l : list key) (l' : list key) {struct l} : bool :=
         match l, l' with
         | [], [] => true
         | x :: r, y :: r' => key_eqb x y && all2 r r'
         | _, _ => false
         end) l l'
  | _, _ => false
  end.

(* origins of applications are classes: neither Union nor Literal *)
Fixpoint xwf (a : tx) : bool :=
  match a with
  | XAtom _ => true
  | XApp o args => (2 <=? o) && forallb xwf args
  | XUnion ms => forallb xwf ms
  | XLit _ => true
  end.

(* ---- the subclass cache ---- *)
Section SubclassCache.
  Variable C : Type.
  Variable build : tx -> C.               (* what _make_subclass constructs for a parameter *)
  Variable same : tx -> tx -> bool.       (* when two parameters share a cache entry *)

  Fixpoint sc_lookup (a : tx) (c : list (tx * C)) : option C :=
    match c with [] => None | (b, v) :: r => if same a b then Some v else sc_lookup a r end.

  (* lru_cache(maxsize = m): recency order, oldest first; a hit moves the entry to the end *)
  Fixpoint sc_remove (a : tx) (c : list (tx * C)) : list (tx * C) :=
    match c with [] => [] | (b, v) :: r => if same a b then r else (b, v) :: sc_remove a r end.

  Definition sc_call (m : nat) (c : list (tx * C)) (a : tx) : list (tx * C) * C :=
    match sc_lookup a c with
    | Some v => (match find (fun e => same a (fst e)) c with
                 | Some e => sc_remove a c ++ [e]
                 | None => c
                 end, v)
    | None => ((if List.length c <? m then c else tl c) ++ [(a, build a)], build a)
    end.

  Fixpoint sc_run (m : nat) (c : list (tx * C)) (ps : list tx) : list C :=
    match ps with
    | [] => []
    | a :: r => let '(c', v) := sc_call m c a in v :: sc_run m c' r
    end.
End SubclassCache.

(* pane's cache: an entry is shared when the parameters are == AND have the same ordered key *)
Definition pane_same (a b : tx) : bool := py_teq a b && key_eqb (okey a) (okey b).
