(* expected(): the English phrases pane puts into error nodes (util.pluralize,
   util.list_phrase, Converter.expected of every modelled converter), and str()/repr()
   of the simple values that occur in those phrases. *)
From Coq Require Import ZArith List Bool String Ascii DecimalString.
Require Import Base.PyStr Base.Outcome Model.Values Model.Vocab Model.Types Gen.GenScalars Gen.GenConds.
Import ListNotations.
Open Scope string_scope.

Definition Z_str (z : Z) : string := NilZero.string_of_int (Z.to_int z).
Definition nat_str (n : nat) : string := Z_str (Z.of_nat n).

(* util.pluralize(word, plural, suffix='s', article=None) *)
Definition pluralize (word : string) (plural : bool) (article : option string) : string :=
  if plural then word ++ "s"
  else match article with Some a => if is_empty a then word else a ++ " " ++ word | None => word end.

(* util.list_phrase(words, conj) *)
Fixpoint join_comma_last (conj : string) (ws : list string) : string :=
  match ws with
  | [] => ""
  | [w] => conj ++ " " ++ w
  | w :: r => w ++ ", " ++ join_comma_last conj r
  end.
Definition list_phrase (conj : string) (ws : list string) : string :=
  match ws with
  | [] => ""
  | [a] => a
  | [a; b] => a ++ " " ++ conj ++ " " ++ b
  | _ => join_comma_last conj ws
  end.

(* util.remove_article *)
Fixpoint lstrip (s : string) : string :=
  match s with
  | String c r => if Ascii.eqb c " " then lstrip r else s
  | EmptyString => s
  end.
Fixpoint strip_prefix (p s : string) : option string :=
  match p, s with
  | EmptyString, _ => Some s
  | String a p', String b s' => if Ascii.eqb a b then strip_prefix p' s' else None
  | _, _ => None
  end.
Definition remove_article (s : string) : string :=
  let s := lstrip s in
  match strip_prefix "a " s with
  | Some r => r
  | None => match strip_prefix "an " s with
            | Some r => r
            | None => match strip_prefix "the " s with Some r => r | None => s end
            end
  end.

(* repr() / str() of simple values; [None] = not modelled (floats, containers of them ...) *)
Definition simple_text (s : string) : bool :=
  sall (fun c => let n := nat_of_ascii c in (32 <=? n)%nat && (n <? 127)%nat && negb (Ascii.eqb c "'") && negb (Ascii.eqb c "\")) s.

Fixpoint py_repr (v : pyval) : option string :=
  match v with
  | VNone => Some "None"
  | VBool b => Some (if b then "True" else "False")
  | VInt z => Some (Z_str z)
  | VStr s => if simple_text s then Some ("'" ++ s ++ "'") else None
  | VBytes s => if simple_text s then Some ("b'" ++ s ++ "'") else None
  | VTuple l =>
      let fix go (l : list pyval) : option (list string) :=
        match l with
        | [] => Some []
        | x :: r => match py_repr x, go r with Some a, Some b => Some (a :: b) | _, _ => None end
        end in
      match go l with
      | Some [a] => Some ("(" ++ a ++ ",)")
      | Some parts => Some ("(" ++ join ", " parts ++ ")")
      | None => None
      end
  | _ => None
  end.

Definition py_str (v : pyval) : option string :=
  match v with
  | VStr s => Some s
  | _ => py_repr v
  end.

Definition repr_or (v : pyval) : string := match py_repr v with Some s => s | None => "?" end.
Definition str_or (v : pyval) : string := match py_str v with Some s => s | None => "?" end.

(* ---- conditions: cond_name and make_expected ---- *)
Definition adj_name (a : adj) : string := adj_word a.

Definition opt_list {A} (o : option A) : list A := match o with Some x => [x] | None => [] end.

Fixpoint cond_name (c : cond) : string :=
  match c with
  | CAdj a => adj_name a
  | CValRange lo hi =>
      list_phrase "and" (map (fun z => "v >= " ++ Z_str z) (opt_list lo) ++ map (fun z => "v <= " ++ Z_str z) (opt_list hi))
  | CLenRange lo hi =>
      list_phrase "and"
        (map (fun n => "at least " ++ nat_str n ++ " " ++ pluralize "elem" (negb (Nat.eqb n 1)) None) (opt_list lo) ++
         map (fun n => "at most " ++ nat_str n ++ " " ++ pluralize "elem" (negb (Nat.eqb n 1)) None) (opt_list hi))
  | CAll l => list_phrase "and" (map cond_name l)
  | CAny l => list_phrase "or" (map cond_name l)
  | CNot c' => "not " ++ cond_name c'
  | CRaise n => n
  | CConst n _ => n
  end.

Definition cond_expected (c : cond) (inner : string) (plural : bool) : string :=
  match c with
  | CAdj a => if plural then adj_name a ++ " " ++ inner else "a " ++ adj_name a ++ " " ++ remove_article inner
  | CLenRange _ _ => inner ++ " with " ++ cond_name c
  | _ => inner ++ " satisfying " ++ cond_name c
  end.

Definition fmt_name (f : fmt) : string := match f with FStruct => "struct" | FTuple => "tuple" end.

(* type of the values of an enum, as EnumConverter builds it: the union of the
   distinct value classes in order of first occurrence *)
Definition scalar_of_val (v : pyval) : option scalar :=
  match v with
  | VBool _ => Some SBool | VInt _ => Some SInt | VFloat _ => Some SFloat | VComplex _ _ => Some SComplex
  | VStr _ => Some SStr | VBytes _ => Some SBytes | _ => None
  end.
Definition scalar_eqb (a b : scalar) : bool :=
  match a, b with
  | SBool, SBool | SInt, SInt | SFloat, SFloat | SComplex, SComplex | SStr, SStr | SBytes, SBytes
  | SByteArray, SByteArray => true
  | _, _ => false
  end.
Definition ty_of_val (v : pyval) : ty :=
  match v with VNone => TNone | _ => match scalar_of_val v with Some s => TScalar s | None => TAny end end.
Definition ty_head_eqb (a b : ty) : bool :=
  match a, b with
  | TNone, TNone => true
  | TScalar s, TScalar s' => scalar_eqb s s'
  | TAny, TAny => true
  | _, _ => false
  end.
Fixpoint dedup_heads (l : list ty) : list ty :=
  match l with
  | [] => []
  | x :: r => x :: filter (fun y => negb (ty_head_eqb y x)) (dedup_heads r)
  end.
Definition enum_inner (members : list (string * pyval)) : ty :=
  match dedup_heads (map (fun m => ty_of_val (snd m)) members) with
  | [t] => t
  | ts => TUnion ts
  end.

Fixpoint expected (t : ty) (plural : bool) : string :=
  match t with
  | TAny => pluralize "any value" plural None
  | TNone => pluralize "null value" plural None
  | TScalar s => scalar_expect s plural
  | TSeq _ e => pluralize "sequence" plural None ++ " of " ++ expected e true
  | TTuple es => pluralize "tuple" plural None ++ " of length " ++ nat_str (List.length es)
  | TDict k v => pluralize "mapping" plural None ++ " of " ++ expected k true ++ " => " ++ expected v true
  | TStruct _ => pluralize "struct" plural None
  | TUnion ms => list_phrase "or" (map (fun m => expected m plural) ms)
  | TLiteral vals =>
      let lits := list_phrase "or" (map repr_or vals) in
      if plural then "(" ++ lits ++ ")" else lits
  | TEnum n members =>
      pluralize "member" plural None ++ " of enum '" ++ n ++ "' (" ++
      list_phrase "or" (map (fun m => str_or (snd m)) members) ++ ")"
  | TClass h _ => list_phrase "or" (map fmt_name (c_in_formats h)) ++ " " ++ c_name h
  | TCond inner c => cond_expected c (expected inner plural) plural
  | TTagged tag lay vs =>
      let obj p := list_phrase "or" (map (fun x => expected (snd x) p) vs) in
      let tags := list_phrase "or" (map (fun x => repr_or (fst x)) vs) in
      match lay with
      | LInternal => obj plural
      | LExternal => pluralize "mapping" plural (Some "a") ++ " '" ++ tags ++ "' => " ++ obj false
      | LAdjacent tk ck =>
          pluralize "mapping" plural (Some "a") ++ " " ++ repr_or (VStr tk) ++ " => " ++ tags ++ ", " ++
          repr_or (VStr ck) ++ " => " ++ obj false
      end
  end.

Definition tag_expected (vs : list (pyval * ty)) : string :=
  list_phrase "or" (map (fun x => repr_or (fst x)) vs).
