(* Model of pane/field.py FieldSpec.make_field: derivation of a field's input names and
   output name from the field options and the class-level rename styles (C15). *)
From Coq Require Import List Bool String.
Require Import Base.PyStr Base.Styles Model.Rename.
Import ListNotations.
Open Scope string_scope.

Record fspec := mkSpec {
  s_rename : option string; s_in_names : option (list string);
  s_aliases : option (list string); s_out_name : option string }.

Inductive mf_res := MFOk (in_names : list string) (out_name : string) | MFTypeError | MFValueError.

Definition is_some {A} (o : option A) : bool := match o with Some _ => true | None => false end.
Definition b2n (b : bool) : nat := if b then 1 else 0.

Fixpoint rename_all (name : string) (styles : list style) : option (list string) :=
  match styles with
  | [] => Some []
  | st :: r => match rename_field name st, rename_all name r with
               | Some a, Some b => Some (a :: b)
               | _, _ => None
               end
  end.

(* the names accepted when nothing is said on the field: the class's input styles, or the Python name *)
Definition base_names (name : string) (in_rename : option (list style)) : option (list string) :=
  match in_rename with Some styles => rename_all name styles | None => Some [name] end.

Definition smem (x : string) (l : list string) : bool := existsb (String.eqb x) l.

Definition make_field_names (name : string) (sp : fspec) (in_rename : option (list style)) (out_rename : option style) : mf_res :=
  (* out_name first, as in the code (so a rename failure there comes before the TypeError check) *)
  let out :=
    match s_out_name sp with
    | Some o => Some o
    | None => match s_rename sp with
              | Some r => Some r
              | None => match out_rename with Some st => rename_field name st | None => Some name end
              end
    end in
  match out with
  | None => MFValueError
  | Some out_name =>
      if Nat.ltb 1 (b2n (is_some (s_rename sp)) + b2n (is_some (s_aliases sp)) + b2n (is_some (s_in_names sp)))
      then MFTypeError
      else
        match s_rename sp, s_aliases sp, s_in_names sp with
        | Some r, _, _ => MFOk [r] out_name
        | None, Some al, _ =>
            match base_names name in_rename with
            | Some base => MFOk (base ++ filter (fun a => negb (smem a base)) al) out_name
            | None => MFValueError
            end
        | None, None, Some names => MFOk names out_name
        | None, None, None =>
            match base_names name in_rename with
            | Some base => MFOk base out_name
            | None => MFValueError
            end
        end
  end.
