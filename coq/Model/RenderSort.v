(* ProductErrorNode keeps the missing and the unexpected field names in SETS; print_error prints
   them sorted (sorted(missing), sorted(extra, key=str)), so that the text does not depend on the
   order in which a set happens to be enumerated.  [canon_tree] puts every product node of a tree
   into that order; [render_str] of Model/Render.v is applied to the result. *)
From Coq Require Import List Bool String.
Require Import Model.Values Model.Conv Model.Render.
Import ListNotations.
Open Scope string_scope.

Section KeySort.
  Context {A : Type} (key : A -> string).
  Fixpoint kinsert (v : A) (l : list A) : list A :=
    match l with [] => [v] | x :: r => if String.leb (key v) (key x) then v :: l else x :: kinsert v r end.
  Definition ksort (l : list A) : list A := fold_right kinsert [] l.
End KeySort.

Definition ssort (l : list string) : list string := ksort (fun s => s) l.

(* key=str: an unexpected key is placed by its text *)
Definition ex_text (v : pyval) : string := match show_val v with Some s => s | None => "" end.
Definition vsort (l : list pyval) : list pyval := ksort ex_text l.

Fixpoint canon_tree (e : enode) {struct e} : enode :=
  match e with
  | EProduct exp ch a mi ex =>
      EProduct exp ((fix go (l : list (ekey * enode)) : list (ekey * enode) :=
                       match l with [] => [] | (k, c) :: r => (k, canon_tree c) :: go r end) ch)
               a (ssort mi) (vsort ex)
  | ESum ch => ESum ((fix go (l : list enode) : list enode := match l with [] => [] | c :: r => canon_tree c :: go r end) ch)
  | other => other
  end.

(* str(ConvertError) *)
Definition render_message (e : enode) : rres := render_str (canon_tree e).
