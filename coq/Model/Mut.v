(* C09: a small heap model of the only place where a conversion calls a mutating
   method on something derived from its input: the internally tagged union strips
   the tag with  val = val.copy(); tag = val.pop(self.tag).
   Whether the receiver of .pop is the input or a fresh copy is read from the
   generated data-flow table (Gen/GenMut.v). *)
From Coq Require Import List Bool String.
Require Import Base.Outcome Model.Values Model.Conv Gen.GenMut.
Import ListNotations.
Open Scope string_scope.

Inductive mop := OCopy | OPopCopy (k : pyval) | OPopInput (k : pyval).

(* heap: the caller's mapping and (optionally) the converter's private copy *)
Record heap := mkHeap { h_input : list (pyval * pyval); h_copy : option (list (pyval * pyval)) }.

Definition exec (h : heap) (o : mop) : heap :=
  match o with
  | OCopy => mkHeap (h_input h) (Some (h_input h))
  | OPopCopy k => mkHeap (h_input h) (match h_copy h with Some c => Some (dict_remove k c) | None => None end)
  | OPopInput k => mkHeap (dict_remove k (h_input h)) (h_copy h)
  end.

Definition target_eqb (a b : target) : bool := match a, b with Fresh, Fresh | Input, Input => true | _, _ => false end.

(* the receiver class of TaggedUnionConverter.<pass>'s val.pop, from the generated table *)
Definition tag_pop_target (pass : string) : target :=
  match find (fun s => let '(c, m, r, op, _) := s in
                       String.eqb c "TaggedUnionConverter" && String.eqb m pass && String.eqb op "pop") mut_sites with
  | Some (_, _, _, _, t) => t
  | None => Input      (* not found: assume the worst *)
  end.

Definition tag_protocol (pass : string) (k : pyval) : list mop :=
  match tag_pop_target pass with
  | Fresh => [OCopy; OPopCopy k]
  | Input => [OPopInput k]
  end.

Definition run (ops : list mop) (input : list (pyval * pyval)) : heap :=
  fold_left exec ops (mkHeap input None).

Definition all_fresh : bool :=
  forallb (fun s => let '(_, _, _, _, t) := s in target_eqb t Fresh) mut_sites.
