(* A dataclass instance as a state machine (C16: frozen, copy, deepcopy, replace).
   State = the value of every field (declaration order) + the record of explicitly set fields.
   Operations = what a user can do to an instance: assign / delete an attribute, copy.copy,
   copy.deepcopy, __replace__ with keyword changes.  copy and replace move the machine to the NEW
   instance, so sequences exercise copies of copies and replacements of copies.
   Follows pane/classes.py: __setattr__, __delattr__, __copy__, __deepcopy__, __replace__ and
   the keyword path of the generated __init__ (bind, convert each supplied argument, defaults,
   record).  Hooks are not part of this machine (Model/Conv.v [construct] has them). *)
From Coq Require Import ZArith List Bool String.
Require Import Base.Outcome Model.Values Model.Vocab Model.Types Model.Conv Model.Into.
Import ListNotations.

Record ifld := mkIFld { if_name : string; if_ty : ty; if_init : bool; if_default : option pyval }.
Record icls := mkICls { ic_frozen : bool; ic_fields : list ifld }.
Record istate := mkIState { st_vals : list (string * pyval); st_set : list string }.

Inductive iout :=
| OutNone                      (* the operation returned None (assignment) *)
| OutInst (s : istate)         (* a new instance *)
| OutFrozen                    (* FrozenInstanceError *)
| OutAttrError                 (* AttributeError *)
| OutTypeError                 (* TypeError: unknown / missing constructor argument *)
| OutConvertError              (* ConvertError: a changed value does not belong to the field's type *)
| OutEscape (e : exn)
| OutOutside.                  (* outside the modelled domain: assignment to a name that is not a field *)

Inductive iop :=
| OpAssign (n : string) (v : pyval)
| OpDelete (n : string)
| OpCopy
| OpDeepCopy
| OpReplace (changes : list (string * pyval)).

(* convert(val, f.type): serialise by the value's own class, then parse as the field type *)
Definition conv_arg (t : ty) (v : pyval) : outcome pyval :=
  match into_auto v with Ok d => tc t d | Reject => Reject | Escape e => Escape e end.

Definition sadd (n : string) (l : list string) : list string := if smem n l then l else l ++ [n].

Definition find_fld (n : string) (fs : list ifld) : option ifld :=
  find (fun f => String.eqb n (if_name f)) fs.
Definition is_field (c : icls) (n : string) : bool :=
  match find_fld n (ic_fields c) with Some _ => true | None => false end.

Fixpoint set_val (n : string) (v : pyval) (vals : list (string * pyval)) : list (string * pyval) :=
  match vals with
  | [] => []
  | (k, x) :: r => if String.eqb n k then (k, v) :: r else (k, x) :: set_val n v r
  end.

(* ---- the keyword path of the generated __init__ ---- *)
(* sig.bind of the keywords: every keyword is an init field, every required init field is present *)
Definition bind_ok (fs : list ifld) (kw : list (string * pyval)) : bool :=
  forallb (fun kv => match find_fld (fst kv) fs with Some f => if_init f | None => false end) kw &&
  forallb (fun f => negb (if_init f) || has_value (if_name f) kw ||
                    match if_default f with Some _ => true | None => false end) fs.

(* the value one field receives *)
Definition field_value (kw : list (string * pyval)) (f : ifld) : outcome (string * pyval) :=
  if if_init f then
    match field_get (if_name f) kw with
    | Some v => match conv_arg (if_ty f) v with
                | Ok x => Ok (if_name f, x) | Reject => Reject | Escape e => Escape e end
    | None => match if_default f with Some d => Ok (if_name f, d) | None => Escape ERuntimeBug end
    end
  else match if_default f with Some d => Ok (if_name f, d) | None => Escape EAttributeError end.

Definition supplied (fs : list ifld) (kw : list (string * pyval)) : list string :=
  map if_name (filter (fun f => if_init f && has_value (if_name f) kw) fs).

Definition construct_kw (c : icls) (kw : list (string * pyval)) : iout :=
  if negb (bind_ok (ic_fields c) kw) then OutTypeError
  else match map_out (field_value kw) (ic_fields c) with
       | Ok vals => OutInst (mkIState vals (supplied (ic_fields c) kw))
       | Reject => OutConvertError
       | Escape e => OutEscape e
       end.

(* ---- __replace__ ---- *)
(* the set init fields with their current values; `changes` are looked up first (dict.update) *)
Definition replace_kwargs (c : icls) (s : istate) (changes : list (string * pyval)) : list (string * pyval) :=
  changes ++
  flat_map (fun f => if if_init f && smem (if_name f) (st_set s)
                     then match field_get (if_name f) (st_vals s) with Some v => [(if_name f, v)] | None => [] end
                     else []) (ic_fields c).

(* init=False fields that had been assigned are carried over to the new instance *)
Definition carried (c : icls) (s : istate) : list ifld :=
  filter (fun f => negb (if_init f) && smem (if_name f) (st_set s)) (ic_fields c).

Definition carry_over (c : icls) (s new : istate) : istate :=
  fold_left (fun acc f =>
               if smem (if_name f) (st_set acc) then acc
               else match field_get (if_name f) (st_vals s) with
                    | Some v => mkIState (set_val (if_name f) v (st_vals acc)) (sadd (if_name f) (st_set acc))
                    | None => acc
                    end)
            (carried c s) new.

Definition replace (c : icls) (s : istate) (changes : list (string * pyval)) : iout :=
  match construct_kw c (replace_kwargs c s changes) with
  | OutInst new => OutInst (carry_over c s new)
  | o => o
  end.

(* ---- the machine ---- *)
Definition step (c : icls) (s : istate) (o : iop) : istate * iout :=
  match o with
  | OpAssign n v =>
      if ic_frozen c then (s, OutFrozen)
      else if is_field c n then (mkIState (set_val n v (st_vals s)) (sadd n (st_set s)), OutNone)
      else (s, OutOutside)
  | OpDelete _ => (s, OutAttrError)
  | OpCopy | OpDeepCopy => (s, OutInst s)
  | OpReplace ch =>
      match replace c s ch with
      | OutInst s' => (s', OutInst s')
      | e => (s, e)
      end
  end.

Definition run (c : icls) (s : istate) (ops : list iop) : istate := fold_left (fun st o => fst (step c st o)) ops s.

(* every output along a run, for the correspondence with pane *)
Fixpoint trace (c : icls) (s : istate) (ops : list iop) : list iout :=
  match ops with
  | [] => []
  | o :: r => let '(s', out) := step c s o in out :: trace c s' r
  end.
