(* Python values as the conversion model sees them: one inductive for interchange
   data and for typed values (convert(), union serialisation and constructors feed
   typed values back into converters). *)
From Coq Require Import ZArith List Bool String Ascii.
Require Import Base.PyNum Base.Outcome.
Import ListNotations.

Inductive stdkind := KDecimal | KFraction | KDatetime | KDate | KTime | KPath | KPattern.

Inductive pyval :=
| VNone
| VBool (b : bool)
| VInt (z : Z)
| VFloat (f : pyfloat)
| VComplex (re im : pyfloat)
| VStr (s : string)
| VBytes (s : string)
| VByteArray (s : string)
| VList (l : list pyval)
| VTuple (l : list pyval)
| VDict (kvs : list (pyval * pyval))
| VSet (l : list pyval)
| VFrozenSet (l : list pyval)
| VEnum (ename : string) (member : string) (value : pyval)
| VInst (cname : string) (fields : list (string * pyval)) (setf : list string)
| VStd (k : stdkind) (repr : string)
| VOpaque (name : string).

(* runtime kind: every isinstance gate of pane factors through it *)
Inductive kind := KNone | KBool | KInt | KFloat | KComplex | KStr | KBytes | KByteArray
                | KList | KTuple | KDict | KSet | KFrozenSet | KEnum | KInst | KStd (k : stdkind) | KOpaque.

Definition kind_of (v : pyval) : kind :=
  match v with
  | VNone => KNone | VBool _ => KBool | VInt _ => KInt | VFloat _ => KFloat | VComplex _ _ => KComplex
  | VStr _ => KStr | VBytes _ => KBytes | VByteArray _ => KByteArray
  | VList _ => KList | VTuple _ => KTuple | VDict _ => KDict | VSet _ => KSet | VFrozenSet _ => KFrozenSet
  | VEnum _ _ _ => KEnum | VInst _ _ _ => KInst | VStd k _ => KStd k | VOpaque _ => KOpaque
  end.

(* nested induction principle *)
Section PyvalInd.
  Variable P : pyval -> Prop.
  Hypothesis HNone : P VNone.
  Hypothesis HBool : forall b, P (VBool b).
  Hypothesis HInt : forall z, P (VInt z).
  Hypothesis HFloat : forall f, P (VFloat f).
  Hypothesis HComplex : forall a b, P (VComplex a b).
  Hypothesis HStr : forall s, P (VStr s).
  Hypothesis HBytes : forall s, P (VBytes s).
  Hypothesis HByteArray : forall s, P (VByteArray s).
  Hypothesis HList : forall l, Forall P l -> P (VList l).
  Hypothesis HTuple : forall l, Forall P l -> P (VTuple l).
  Hypothesis HDict : forall kvs, Forall (fun kv => P (fst kv) /\ P (snd kv)) kvs -> P (VDict kvs).
  Hypothesis HSet : forall l, Forall P l -> P (VSet l).
  Hypothesis HFrozenSet : forall l, Forall P l -> P (VFrozenSet l).
  Hypothesis HEnum : forall e m v, P v -> P (VEnum e m v).
  Hypothesis HInst : forall c fs sf, Forall (fun kv => P (snd kv)) fs -> P (VInst c fs sf).
  Hypothesis HStd : forall k r, P (VStd k r).
  Hypothesis HOpaque : forall n, P (VOpaque n).

  Fixpoint pyval_ind' (v : pyval) : P v :=
    let fix go (l : list pyval) : Forall P l :=
      match l with [] => Forall_nil _ | x :: r => Forall_cons _ (pyval_ind' x) (go r) end in
    let fix gop (l : list (pyval * pyval)) : Forall (fun kv => P (fst kv) /\ P (snd kv)) l :=
      match l with [] => Forall_nil _ | (k, x) :: r => Forall_cons (k, x) (conj (pyval_ind' k) (pyval_ind' x)) (gop r) end in
    let fix gof (l : list (string * pyval)) : Forall (fun kv => P (snd kv)) l :=
      match l with [] => Forall_nil _ | (k, x) :: r => Forall_cons (k, x) (pyval_ind' x) (gof r) end in
    match v with
    | VNone => HNone | VBool b => HBool b | VInt z => HInt z | VFloat f => HFloat f
    | VComplex a b => HComplex a b | VStr s => HStr s | VBytes s => HBytes s | VByteArray s => HByteArray s
    | VList l => HList l (go l) | VTuple l => HTuple l (go l) | VDict kvs => HDict kvs (gop kvs)
    | VSet l => HSet l (go l) | VFrozenSet l => HFrozenSet l (go l)
    | VEnum e m x => HEnum e m x (pyval_ind' x) | VInst c fs sf => HInst c fs sf (gof fs)
    | VStd k r => HStd k r | VOpaque n => HOpaque n
    end.
End PyvalInd.

Definition stdkind_eqb (a b : stdkind) : bool :=
  match a, b with
  | KDecimal, KDecimal | KFraction, KFraction | KDatetime, KDatetime | KDate, KDate
  | KTime, KTime | KPath, KPath | KPattern, KPattern => true
  | _, _ => false
  end.

(* numeric view used by Python's cross-type == : bool < int < float < complex *)
Definition as_number (v : pyval) : option (pyfloat * pyfloat * option Z) :=
  match v with
  | VBool b => Some (float_of_int_exact (if b then 1 else 0), fzero, Some (if b then 1 else 0)%Z)
  | VInt z => Some (float_of_int_exact z, fzero, Some z)
  | VFloat f => Some (f, fzero, None)
  | VComplex a b => Some (a, b, None)
  | _ => None
  end.

Section ListEq.
  Context {A : Type} (eqb : A -> A -> bool).
  Fixpoint list_eqb (a b : list A) : bool :=
    match a, b with
    | [], [] => true
    | x :: r, y :: s => eqb x y && list_eqb r s
    | _, _ => false
    end.
  Definition subset_b (a b : list A) : bool := forallb (fun x => existsb (eqb x) b) a.
End ListEq.

(* Python == .  Ints compare exactly with ints; with floats they compare by exact
   value (float_of_int_exact is exact for every Z because pyfloat is unbounded
   dyadic), so 1 == 1.0 == True. *)
Fixpoint py_eqb (a b : pyval) {struct a} : bool :=
  match as_number a, as_number b with
  | Some (ra, ia, _), Some (rb, ib, _) => feqb ra rb && feqb ia ib
  | Some _, None | None, Some _ => false
  | None, None =>
    match a, b with
    | VNone, VNone => true
    | VStr s, VStr t => String.eqb s t
    | VBytes s, VBytes t | VBytes s, VByteArray t | VByteArray s, VBytes t | VByteArray s, VByteArray t => String.eqb s t
    | VList l, VList m => list_eqb py_eqb l m
    | VTuple l, VTuple m => list_eqb py_eqb l m
    | VDict l, VDict m =>
        Nat.eqb (List.length l) (List.length m) &&
        forallb (fun kv => existsb (fun kv' => py_eqb (fst kv) (fst kv') && py_eqb (snd kv) (snd kv')) m) l
    | VSet l, VSet m | VSet l, VFrozenSet m | VFrozenSet l, VSet m | VFrozenSet l, VFrozenSet m =>
        Nat.eqb (List.length l) (List.length m) && forallb (fun x => existsb (py_eqb x) m) l
    | VEnum e m _, VEnum e' m' _ => String.eqb e e' && String.eqb m m'
    | VInst c fs _, VInst c' fs' _ =>
        String.eqb c c' &&
        list_eqb (fun kv kv' => String.eqb (fst kv) (fst kv') && py_eqb (snd kv) (snd kv')) fs fs'
    | VStd k r, VStd k' r' => stdkind_eqb k k' && String.eqb r r'
    | VOpaque n, VOpaque n' => String.eqb n n'
    | _, _ => false
    end
  end.

Definition kind_eqb (a b : kind) : bool :=
  match a, b with
  | KNone, KNone | KBool, KBool | KInt, KInt | KFloat, KFloat | KComplex, KComplex | KStr, KStr | KBytes, KBytes
  | KByteArray, KByteArray | KList, KList | KTuple, KTuple | KDict, KDict | KSet, KSet | KFrozenSet, KFrozenSet
  | KEnum, KEnum | KInst, KInst | KOpaque, KOpaque => true
  | KStd x, KStd y => stdkind_eqb x y
  | _, _ => false
  end.

Lemma kind_eqb_eq a b : kind_eqb a b = true -> a = b.
Proof. destruct a as [| | | | | | | | | | | | | | |x|], b as [| | | | | | | | | | | | | | |y|]; simpl; try discriminate; try reflexivity. destruct x, y; simpl; try discriminate; reflexivity. Qed.

(* LiteralConverter: a literal is matched by an equal value of the same type only *)
Definition lit_match (v l : pyval) : bool := kind_eqb (kind_of v) (kind_of l) && py_eqb v l.

Lemma lit_match_eqb v l : lit_match v l = true -> py_eqb v l = true.
Proof. unfold lit_match. intros H. apply andb_prop in H. tauto. Qed.
Lemma lit_match_kind v l : lit_match v l = true -> kind_of v = kind_of l.
Proof. unfold lit_match. intros H. apply andb_prop in H. apply kind_eqb_eq. tauto. Qed.

(* hashable(v): what dict/set keys must be *)
Fixpoint hashable (v : pyval) : bool :=
  match v with
  | VList _ | VDict _ | VSet _ | VByteArray _ => false
  | VTuple l => forallb hashable l
  | VFrozenSet l => forallb hashable l
  | VInst _ fs _ => forallb (fun kv => hashable (snd kv)) fs   (* eq=True, frozen=True: hash(tuple(fields)) *)
  | _ => true
  end.

(* set(iterable) / dict key insertion: first occurrence wins *)
Fixpoint dedup (l : list pyval) : list pyval :=
  match l with
  | [] => []
  | x :: r => x :: filter (fun y => negb (py_eqb y x)) (dedup r)
  end.

Definition dict_set (k v : pyval) (d : list (pyval * pyval)) : list (pyval * pyval) :=
  assoc_set (fun a b => py_eqb a b) k v d.
Definition dict_get (k : pyval) (d : list (pyval * pyval)) : option pyval :=
  assoc (fun a b => py_eqb a b) k d.

(* structural, decidable equality used by the correspondence check (sets up to order) *)
Definition float_struct_eqb (a b : pyfloat) : bool :=
  match a, b with
  | FFin m e, FFin m' e' => Z.eqb m m' && Z.eqb e e'
  | FInf s, FInf s' => Bool.eqb s s'
  | FNan, FNan => true
  | _, _ => false
  end.

Fixpoint val_eqb (a b : pyval) {struct a} : bool :=
  match a, b with
  | VNone, VNone => true
  | VBool x, VBool y => Bool.eqb x y
  | VInt x, VInt y => Z.eqb x y
  | VFloat x, VFloat y => float_struct_eqb x y
  | VComplex x1 x2, VComplex y1 y2 => float_struct_eqb x1 y1 && float_struct_eqb x2 y2
  | VStr s, VStr t | VBytes s, VBytes t | VByteArray s, VByteArray t => String.eqb s t
  | VList l, VList m | VTuple l, VTuple m => list_eqb val_eqb l m
  | VDict l, VDict m => list_eqb (fun kv kv' => val_eqb (fst kv) (fst kv') && val_eqb (snd kv) (snd kv')) l m
  | VSet l, VSet m | VFrozenSet l, VFrozenSet m =>
      Nat.eqb (List.length l) (List.length m) && forallb (fun x => existsb (val_eqb x) m) l
  | VEnum e m v, VEnum e' m' v' => String.eqb e e' && String.eqb m m' && val_eqb v v'
  | VInst c fs sf, VInst c' fs' sf' =>
      String.eqb c c' &&
      list_eqb (fun kv kv' => String.eqb (fst kv) (fst kv') && val_eqb (snd kv) (snd kv')) fs fs' &&
      Nat.eqb (List.length sf) (List.length sf') && forallb (fun x => existsb (String.eqb x) sf') sf
  | VStd k r, VStd k' r' => stdkind_eqb k k' && String.eqb r r'
  | VOpaque n, VOpaque n' => String.eqb n n'
  | _, _ => false
  end.
