(* Vocabulary shared by the generated tables (Gen/GenScalars.v, GenGates.v,
   GenExcept.v) and the conversion model. *)
From Coq Require Import List String.
Require Import Base.Outcome Model.Values.
Import ListNotations.

(* targets of pane's scalar table that the model covers *)
Inductive scalar := SBool | SInt | SFloat | SComplex | SStr | SBytes | SByteArray.
Definition all_scalars := [SBool; SInt; SFloat; SComplex; SStr; SBytes; SByteArray].

(* what ScalarConverter._into_data_f is for a target *)
Inductive intofn := IntoIdentity | IntoCtor | IntoStr.

(* guarded call sites: one per (converter method, call that may raise) *)
Inductive site :=
| S_scalar_try | S_scalar_collect          (* self.ty(val) *)
| S_seq_try | S_seq_collect                (* self.constructor(...) *)
| S_dict_try | S_dict_collect              (* dict comprehension / constructor *)
| S_tag_try | S_tag_collect                (* self.tag_map[tag] *)
| S_cond_try | S_cond_collect              (* self.condition(val) *)
| S_enum_try | S_enum_collect              (* self.val_map[val] *)
| S_post_struct_try | S_post_struct_collect (* from_dict_unchecked / make_unchecked: __post_init__ *)
| S_post_tuple_try | S_post_tuple_collect.

Definition all_sites := [S_scalar_try; S_scalar_collect; S_seq_try; S_seq_collect; S_dict_try; S_dict_collect;
  S_tag_try; S_tag_collect; S_cond_try; S_cond_collect; S_enum_try; S_enum_collect;
  S_post_struct_try; S_post_struct_collect; S_post_tuple_try; S_post_tuple_collect].

Inductive adj := APositive | ANegative | ANonPositive | ANonNegative | AFinite | AEmpty | ANonEmpty.

(* comparison operators of the stock conditions (pane.annotations) *)
Inductive cmpop := OpGt | OpLt | OpGe | OpLe | OpEq | OpNe.
Definition op_test (o : cmpop) (c : comparison) : bool :=
  match o, c with
  | OpGt, Gt | OpLt, Lt | OpGe, Gt | OpGe, Eq | OpLe, Lt | OpLe, Eq | OpEq, Eq | OpNe, Lt | OpNe, Gt => true
  | _, _ => false
  end.

Definition all_kinds : list kind :=
  [KNone; KBool; KInt; KFloat; KComplex; KStr; KBytes; KByteArray; KList; KTuple; KDict; KSet; KFrozenSet;
   KEnum; KInst; KStd KDecimal; KStd KFraction; KStd KDatetime; KStd KDate; KStd KTime; KStd KPath; KStd KPattern; KOpaque].
