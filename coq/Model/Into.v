(* The serialiser: Converter.into_data of every modelled converter, the untyped
   fallback into_data(val) that dispatches on the runtime class, and convert(). *)
From Coq Require Import ZArith List Bool String.
Require Import Base.PyNum Base.PyStr Base.Outcome Model.Values Model.Vocab Model.Types Model.Expected Model.Conv.
Require Import Gen.GenScalars Gen.GenGates Gen.GenExcept.
Import ListNotations.
Open Scope string_scope.

Definition unmodelled {A} : outcome A := Escape EOther.

Definition raw_out {A} (r : raw A) : outcome A :=
  match r with ROk a => Ok a | RRaise e => Escape e end.

Definition build_dict (kvs : list (pyval * pyval)) : outcome pyval := raw_out (dict_ctor kvs).

(* into_data(val) with no type: make_converter(type(val)).into_data(val).
   Instances of dataclasses need their class; they are handled where a class is in
   scope ([into_data] below) and are [unmodelled] here. *)
Fixpoint into_auto (v : pyval) {struct v} : outcome pyval :=
  match v with
  | VNone | VBool _ | VInt _ | VFloat _ | VComplex _ _ | VStr _ | VBytes _ | VByteArray _ => Ok v
  | VList l | VSet l | VFrozenSet l =>
      match map_out into_auto l with Ok xs => Ok (VList xs) | Reject => Reject | Escape e => Escape e end
  | VTuple l =>
      match map_out into_auto l with Ok xs => Ok (VTuple xs) | Reject => Reject | Escape e => Escape e end
  | VDict kvs =>
      match map_out (fun kv => match into_auto (fst kv) with
                               | Ok k' => match into_auto (snd kv) with
                                          | Ok v' => Ok (k', v') | Reject => Reject | Escape e => Escape e end
                               | Reject => Reject | Escape e => Escape e end) kvs with
      | Ok out => build_dict out
      | Reject => Reject
      | Escape e => Escape e
      end
  | VEnum _ _ value => Ok value
  | VInst _ _ _ => unmodelled
  | VStd _ _ => unmodelled
  | VOpaque _ => Escape ETypeError
  end.

(* `for x in val` of the serialisers *)
Definition iter_items (v : pyval) : option (list pyval) :=
  match v with
  | VList l | VTuple l | VSet l | VFrozenSet l => Some l
  | _ => None
  end.

Definition scalar_into_data (s : scalar) (x : pyval) : outcome pyval :=
  match scalar_into s with
  | IntoIdentity => Ok x
  | IntoCtor => raw_out (scalar_ctor s x)
  | IntoStr => match py_str x with Some t => Ok (VStr t) | None => unmodelled end
  end.

Definition inst_fields (x : pyval) : option (string * list (string * pyval)) :=
  match x with VInst c fs _ => Some (c, fs) | _ => None end.

Section IntoLoops.
  Context {T : Type}.
  Variable into : T -> pyval -> outcome pyval.

  (* PaneConverter.into_data: the non-excluded fields in order *)
  Fixpoint class_into (fs : list (fld * T)) (attrs : list (string * pyval)) : outcome (list (string * pyval)) :=
    match fs with
    | [] => Ok []
    | (f, t) :: r =>
        if f_exclude f then class_into r attrs
        else match field_get (f_name f) attrs with
             | None => Escape EAttributeError
             | Some x => match into t x with
                         | Ok d => match class_into r attrs with
                                   | Ok rest => Ok ((f_out_name f, d) :: rest)
                                   | Reject => Reject | Escape e => Escape e end
                         | Reject => Reject
                         | Escape e => Escape e
                         end
             end
    end.

  (* the class with a given name among the (possibly nested) members of a union *)
  Section ByName.
    Variable name : string.
    Variable is_class : T -> option string.
    Context {C : Type} (g : T -> C).
    Fixpoint with_class (ms : list T) : option C :=
      match ms with
      | [] => None
      | m :: r => match is_class m with
                  | Some n => if String.eqb n name then Some (g m) else with_class r
                  | None => with_class r
                  end
      end.
  End ByName.

  (* StructConverter.into_data *)
  Section LitInto.
    Variable fs : list (string * T).
    Variable is_any : T -> bool.
    Fixpoint lit_into (kvs : list (pyval * pyval)) : outcome (list (pyval * pyval)) :=
      match kvs with
      | [] => Ok []
      | (k, x) :: r =>
          let d := match with_key k (fun t => if is_any t then into_auto x else into t x) fs with
                   | Some o => o
                   | None => into_auto x
                   end in
          match d with
          | Ok y => match lit_into r with Ok rest => Ok ((k, y) :: rest) | Reject => Reject | Escape e => Escape e end
          | Reject => Reject
          | Escape e => Escape e
          end
      end.
  End LitInto.
End IntoLoops.

Definition class_name_of (t : ty) : option string :=
  match t with TClass h _ => Some (c_name h) | _ => None end.
Definition is_any_ty (t : ty) : bool := match t with TAny => true | _ => false end.

Definition wrap_tag (lay : layout) (tagv inner : pyval) : outcome pyval :=
  match lay with
  | LInternal => Ok inner
  | LExternal => build_dict [(tagv, inner)]
  | LAdjacent tk ck => build_dict [(VStr tk, tagv); (VStr ck, inner)]
  end.

Fixpoint into_data (t : ty) (x : pyval) {struct t} : outcome pyval :=
  match t with
  | TAny | TNone | TLiteral _ => into_auto x
  | TScalar s => scalar_into_data s x
  | TSeq c e =>
      match iter_items x with
      | None => Escape ETypeError
      | Some l =>
          match map_out (into_data e) l with
          | Ok xs => Ok (match c with SeqTuple => VTuple xs | _ => VList xs end)
          | Reject => Reject
          | Escape z => Escape z
          end
      end
  | TTuple es =>
      match iter_items x with
      | None => Escape ETypeError
      | Some l =>
          match zip_out into_data es l with
          | Ok xs => Ok (VTuple xs)
          | Reject => Reject
          | Escape z => Escape z
          end
      end
  | TDict kt vt =>
      match x with
      | VDict kvs =>
          match map_out (fun kv =>
                  match (if is_any_ty kt then into_auto (fst kv) else into_data kt (fst kv)) with
                  | Ok k' => match (if is_any_ty vt then into_auto (snd kv) else into_data vt (snd kv)) with
                             | Ok v' => Ok (k', v') | Reject => Reject | Escape z => Escape z end
                  | Reject => Reject | Escape z => Escape z end) kvs with
          | Ok out => build_dict out
          | Reject => Reject
          | Escape z => Escape z
          end
      | _ => Escape EAttributeError
      end
  | TStruct fs =>
      match x with
      | VDict kvs =>
          match lit_into into_data fs is_any_ty kvs with
          | Ok out => Ok (VDict out)
          | Reject => Reject
          | Escape z => Escape z
          end
      | _ => Escape EAssertion
      end
  | TUnion ms =>
      (* the first member whose fast pass accepts the (typed) value serialises it *)
      let fix go (l : list ty) : option (outcome pyval) :=
        match l with
        | [] => None
        | m :: r => match tc m x with
                    | Ok _ => Some (into_data m x)
                    | Reject => go r
                    | Escape z => Some (Escape z)
                    end
        end in
      match go ms with
      | Some o => o
      | None =>
          (* default: into_data(val) by the runtime class *)
          match x with
          | VInst c _ _ =>
              match with_class c class_name_of (fun m => into_data m x) ms with
              | Some o => o
              | None => unmodelled
              end
          | _ => into_auto x
          end
      end
  | TEnum n _ =>
      match x with
      | VEnum n' _ value => if String.eqb n n' then Ok value else into_auto x
      | _ => into_auto x
      end
  | TClass h fs =>
      match x with
      | VInst _ attrs _ =>
          match class_into into_data fs attrs with
          | Ok out =>
              if c_out_tuple h then Ok (VTuple (map snd out))
              else build_dict (map (fun kv => (VStr (fst kv), snd kv)) out)
          | Reject => Reject
          | Escape z => Escape z
          end
      | _ => Escape EAssertion
      end
  | TCond inner _ => into_data inner x
  | TTagged tag lay vs =>
      match x with
      | VInst _ attrs _ =>
          match field_get tag attrs with
          | None => Escape EAttributeError
          | Some tagv =>
              if hashable tagv then
                match with_variant tagv (fun t' => into_data t' x) vs with
                | Some (Ok inner) => wrap_tag lay tagv inner
                | Some o => o
                | None => Escape EKeyError
                end
              else Escape ETypeError
          end
      | _ => Escape EAttributeError
      end
  end.
