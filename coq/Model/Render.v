(* Model of pane/errors.py: ErrorNode.print_error / __str__.
   The text is produced as a list of tokens whose concatenation is the message;
   keys, expectations, field names and values are separate tokens so that "the
   message mentions X" is membership of a token.  Values are shown by [show_val],
   which is defined for data without floats (str() of a float is not modelled);
   traceback text of causes is a single opaque token. *)
From Coq Require Import ZArith List Bool String Ascii.
Require Import Base.PyStr Base.Outcome Model.Values Model.Vocab Model.Types Model.Expected Model.Conv.
Import ListNotations.
Open Scope string_scope.

Inductive rres := RText (toks : list string) | RUnmodelled | RRaises.

Definition nl : string := String (ascii_of_nat 10) EmptyString.

(* repr() inside containers, str() at top level *)
Fixpoint show_repr (v : pyval) {struct v} : option string :=
  let fix go (l : list pyval) : option (list string) :=
    match l with
    | [] => Some []
    | x :: r => match show_repr x, go r with Some a, Some b => Some (a :: b) | _, _ => None end
    end in
  let fix gop (l : list (pyval * pyval)) : option (list string) :=
    match l with
    | [] => Some []
    | (k, x) :: r => match show_repr k, show_repr x, gop r with
                     | Some a, Some b, Some c => Some ((a ++ ": " ++ b) :: c)
                     | _, _, _ => None
                     end
    end in
  match v with
  | VNone => Some "None"
  | VBool b => Some (if b then "True" else "False")
  | VInt z => Some (Z_str z)
  | VStr s => if simple_text s then Some ("'" ++ s ++ "'") else None
  | VBytes s => if simple_text s then Some ("b'" ++ s ++ "'") else None
  | VByteArray s => if simple_text s then Some ("bytearray(b'" ++ s ++ "')") else None
  | VList l => match go l with Some parts => Some ("[" ++ join ", " parts ++ "]") | None => None end
  | VTuple l => match go l with
                | Some [a] => Some ("(" ++ a ++ ",)")
                | Some parts => Some ("(" ++ join ", " parts ++ ")")
                | None => None
                end
  | VDict kvs => match gop kvs with Some parts => Some ("{" ++ join ", " parts ++ "}") | None => None end
  | _ => None
  end.

Definition show_val (v : pyval) : option string :=
  match v with VStr s => Some s | _ => show_repr v end.

Definition type_name (v : pyval) : option string :=
  match v with
  | VNone => Some "NoneType" | VBool _ => Some "bool" | VInt _ => Some "int" | VFloat _ => Some "float"
  | VComplex _ _ => Some "complex" | VStr _ => Some "str" | VBytes _ => Some "bytes" | VByteArray _ => Some "bytearray"
  | VList _ => Some "list" | VTuple _ => Some "tuple" | VDict _ => Some "dict" | VSet _ => Some "set"
  | VFrozenSet _ => Some "frozenset" | _ => None
  end.

Definition key_text (k : ekey) : option string :=
  match k with
  | KIdx n => Some (nat_str n)
  | KVal v => show_val v
  | KStrOf v => show_val v
  end.

(* concatenate rendered pieces; any unmodelled piece makes the whole unmodelled, a raise wins *)
Definition rcat (a b : rres) : rres :=
  match a, b with
  | RRaises, _ | _, RRaises => RRaises
  | RUnmodelled, _ | _, RUnmodelled => RUnmodelled
  | RText x, RText y => RText (x ++ y)%list
  end.
Definition rtext (l : list string) : rres := RText l.
Definition ropt (o : option string) : rres := match o with Some s => RText [s] | None => RUnmodelled end.

Definition got_clause (a : pyval) : rres :=
  rcat (rtext [", instead got `"]) (rcat (ropt (show_val a)) (rcat (rtext ["` of type `"]) (rcat (ropt (type_name a)) (rtext ["`"; nl])))).

Section Lines.
  Context {A : Type} (f : A -> rres).
  Fixpoint rconcat (l : list A) : rres :=
    match l with [] => RText [] | x :: r => rcat (f x) (rconcat r) end.
End Lines.

Definition actual_of (e : enode) : option pyval :=
  match e with
  | EWrongType _ a _ _ | EWrongLen _ _ _ a _ | ECondFailed _ a _ _ | EProduct _ _ a _ _ => Some a
  | _ => None
  end.

(* [fp] = Some prefix while printing the body of a fused chain of product nodes
   ("fuse together non-branching product nodes": while a product has exactly one child,
   that child is a product, and nothing is missing or extra, the chain is printed as one
   node with dotted keys, under the outermost header) *)
Fixpoint render (indent : string) (inside : bool) (fp : option (list string)) (e : enode) {struct e} : rres :=
  match e with
  | EWrongType exp a cause info =>
      rcat (if inside then rtext [exp; nl] else rcat (rtext ["Expected "; exp]) (got_clause a))
      (rcat (match info with Some i => rtext [indent; i; nl] | None => rtext [] end)
            (if cause then rcat (rtext ["Caused by exception:"; nl; indent]) RUnmodelled else rtext []))
  | EWrongLen exp mn mx a n =>
      let range := nat_str mn ++ "-" ++ nat_str mx in
      if inside then rtext [exp; " (length "; range; ")"; nl]
      else rcat (rtext ["Expected "; exp; " of length "; range; ", instead got `"])
                (rcat (ropt (show_val a)) (rtext ["` of length "; nat_str n; nl]))
  | ECondFailed exp a cname cause =>
      rcat (if inside then rtext [exp]
            else rcat (rtext ["Expected "; exp; ", instead got `"]) (rcat (ropt (show_val a)) (rtext ["`"])))
           (if cause then rcat (rtext [nl; "Failed to call condition '"; cname; "':"; nl; indent]) RUnmodelled
            else rtext [" (failed condition '"; cname; "')"; nl])
  | EDupKey k aliases =>
      if inside then RRaises                       (* assert not inside_sum *)
      else rcat (rtext ["Duplicate key "]) (rcat (ropt (show_val k)) (rtext [" (same as "; join "/" aliases; ")"; nl]))
  | EProduct exp ch a mi ex =>
      let prefix := match fp with Some p => p | None => [] end in
      let header := match fp with
                    | Some _ => rtext []
                    | None => rtext [if inside then "" else "Expected "; exp; nl]
                    end in
      let plain :=
        rcat ((fix lines (l : list (ekey * enode)) : rres :=
                 match l with
                 | [] => RText []
                 | (k, c) :: r =>
                     rcat (rcat (rtext [indent; "While parsing field '"])
                                (rcat (rtext prefix) (rcat (ropt (key_text k)) (rtext ["':"; nl; indent; "  "]))))
                          (rcat (render (indent ++ "  ") false None c) (lines r))
                 end) ch)
             (rcat (rconcat (fun f => rcat (rtext [indent; "  Missing required field '"]) (rcat (rtext prefix) (rtext [f; "'"; nl]))) mi)
                   (rconcat (fun f => rcat (rtext [indent; "  Unexpected field '"]) (rcat (rtext prefix) (rcat (ropt (show_val f)) (rtext ["'"; nl])))) ex)) in
      rcat header
        (match ch, mi, ex with
         | [(k, c)], [], [] =>
             match c with
             | EProduct _ _ _ _ _ =>
                 match key_text k with
                 | Some kt => render indent false (Some (prefix ++ [kt; "."])%list) c
                 | None => RUnmodelled
                 end
             | _ => plain
             end
         | _, _, _ => plain
         end)
  | ESum ch =>
      (* nested sums are flattened one level *)
      let flat := flat_map (fun c => match c with ESum inner => inner | _ => [c] end) ch in
      let fix last_actual (l : list enode) (acc : option pyval) : option pyval :=
        match l with [] => acc | c :: r => last_actual r (match actual_of c with Some a => Some a | None => acc end) end in
      let items :=
        (fix go (l : list enode) : rres :=
           match l with
           | [] => RText []
           | c :: r =>
               rcat (match c with
                     | ESum inner =>
                         (fix go2 (l2 : list enode) : rres :=
                            match l2 with
                            | [] => RText []
                            | c2 :: r2 => rcat (rcat (rtext [indent; "- "]) (render (indent ++ "  ") true None c2)) (go2 r2)
                            end) inner
                     | _ => rcat (rtext [indent; "- "]) (render (indent ++ "  ") true None c)
                     end) (go r)
           end) ch in
      rcat (rtext ["Expected one of:"; nl])
           (rcat items
                 (match last_actual flat None with
                  | Some a => rcat (rtext [indent; "Instead got `"]) (rcat (ropt (show_val a)) (rcat (rtext ["` of type `"]) (rcat (ropt (type_name a)) (rtext ["`"; nl]))))
                  | None => rtext [indent; "Instead got `None` of type `NoneType`"; nl]
                  end))
  | ENoChild => RRaises      (* None.print_error: AttributeError *)
  end.

(* str(ConvertError): the text without trailing newlines *)
Fixpoint rstrip_nl (toks : list string) : list string :=
  match toks with
  | [] => []
  | t :: r => match rstrip_nl r with
              | [] => if String.eqb t nl then [] else [t]
              | r' => t :: r'
              end
  end.

Definition render_str (e : enode) : rres :=
  match render "" false None e with
  | RText toks => RText [sconcat (rstrip_nl toks)]
  | other => other
  end.
