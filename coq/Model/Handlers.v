(* C18: which custom converter is used for a type occurring in a dataclass field.
   The dispatch order, the iteration order of the handler collection, the composition of
   class handlers and the field-converter test are reflected from the source (Gen/GenDispatch.v). *)
From Coq Require Import List Bool.
Require Import Gen.GenDispatch.
Import ListNotations.

(* the sources a converter may come from *)
Inductive source :=
| SrcField        (* the field's own converter *)
| SrcCall         (* handlers passed to the conversion call *)
| SrcNearest      (* handlers of the nearest enclosing dataclass (own or inherited) *)
| SrcOuter        (* handlers of dataclasses further out *)
| SrcProtocol     (* the type's own _converter classmethod *)
| SrcScalar       (* the built-in scalar table *)
| SrcRegistered   (* register_converter_handler *)
| SrcStructural.  (* enum / path / tuple / sequence / mapping / subclass delegate *)

Definition source_eqb (a b : source) : bool :=
  match a, b with
  | SrcField, SrcField | SrcCall, SrcCall | SrcNearest, SrcNearest | SrcOuter, SrcOuter | SrcProtocol, SrcProtocol
  | SrcScalar, SrcScalar | SrcRegistered, SrcRegistered | SrcStructural, SrcStructural => true
  | _, _ => false
  end.

Definition of_csrc (c : csrc) : source := match c with COwn => SrcNearest | COuter => SrcOuter end.
Definition of_hsrc (h : hsrc) : list source :=
  match h with HCall => [SrcCall] | HClass => map of_csrc class_handlers_order end.

(* the sources consulted at each dispatch stage, for an ordinary class (a `type`) *)
Definition of_stage (s : stage) : list source :=
  match s with
  | StHandlers => flat_map of_hsrc handlers_iter_order
  | StProtocol => [SrcProtocol]
  | StScalar | StScalarArgs => [SrcScalar]
  | StRegistered => [SrcRegistered]
  | StEnum | StPath | StTuple | StSequence | StMapping | StDelegate => [SrcStructural]
  | _ => []
  end.

Fixpoint dedup_src (l : list source) : list source :=
  match l with
  | [] => []
  | x :: r => x :: filter (fun y => negb (source_eqb y x)) (dedup_src r)
  end.

(* the order in which sources are consulted for the type of a field *)
Definition priority : list source :=
  (if field_converter_first then [SrcField] else []) ++ dedup_src (flat_map of_stage dispatch_order).

(* [answers s] = source s has a converter for this type (a handler that answers NotImplemented,
   a mapping handler for another type, ... do not answer) *)
Definition resolve (answers : source -> bool) : option source := find answers priority.
