(* C19: stream ownership of pane.io, and the file round trip as a composition.
   The serialisers (json, PyYAML) are oracles: [dump] / [load] with the stated law. *)
From Coq Require Import List Bool String.
Require Import Base.Outcome Model.Values Model.Types Model.Conv Model.Into Gen.GenIO.
Import ListNotations.

(* ---- ownership ---- *)
Inductive source := Path | Stream (id : nat).
(* handles: id -> open? ; [owned] = opened by open_file itself *)
Record hstate := mkH { handles : list (nat * bool); next_id : nat }.

Definition set_open (i : nat) (b : bool) (hs : list (nat * bool)) : list (nat * bool) :=
  map (fun p => if Nat.eqb (fst p) i then (i, b) else p) hs.
Definition is_open (i : nat) (hs : list (nat * bool)) : option bool :=
  match find (fun p => Nat.eqb (fst p) i) hs with Some p => Some (snd p) | None => None end.

(* open_file: (handle used, whether the with-block will close it) *)
Definition open_file (s : hstate) (f : source) : hstate * nat * bool :=
  match f with
  | Path => (mkH ((next_id s, true) :: handles s) (S (next_id s)), next_id s, path_opened_by_self_closing_open)
  | Stream i => (s, i, negb stream_returned_in_nullcontext)
  end.

(* `with open_file(f) as f: body` -- the exit runs on normal and on exceptional exit alike *)
Definition with_file (s : hstate) (f : source) : hstate * nat :=
  let '(s1, h, closes) := open_file s f in
  (if closes then mkH (set_open h false (handles s1)) (next_id s1) else s1, h).

(* ---- round trip ---- *)
Section RoundTrip.
  Variable opts : Type.
  Variable dump : opts -> pyval -> string.
  Variable load : string -> option pyval.
  Definition write (o : opts) (t : ty) (x : pyval) : outcome string :=
    match into_data t x with Ok d => Ok (dump o d) | Reject => Reject | Escape e => Escape e end.
  Definition read (t : ty) (text : string) : conv_res :=
    match load text with Some d => convert t d | None => CThrow EValueError end.
End RoundTrip.

(* what a JSON / YAML round trip does to interchange data: tuples come back as lists *)
Fixpoint normalise (v : pyval) : pyval :=
  match v with
  | VTuple l | VList l => VList (map normalise l)
  | VDict kvs => VDict (map (fun kv => (fst kv, normalise (snd kv))) kvs)
  | _ => v
  end.
