#!/usr/bin/env python3
"""Apply each behaviour-preserving patch under a directory to /repo, run every quick check, revert.  A check that exits
non-zero on such a patch is an alarm on code where the property holds.  usage: benign_battery.py <dir with */patch*.diff> [check ids]"""
import json, subprocess, sys
from pathlib import Path
V = Path('/verif')
root = Path(sys.argv[1])
ids = sys.argv[2:] or [f'C{i:02d}' for i in range(1, 21)]

def sh(cmd, cwd=None):
    p = subprocess.run(cmd, shell=True, cwd=cwd, stdout=subprocess.PIPE, stderr=subprocess.STDOUT, text=True)
    return p.returncode, p.stdout

assert sh('git -C /repo status --short')[1].strip() == '', 'repo not clean'
res = {}
import os
only = os.environ.get('BENIGN_ONLY', '').split()
for patch in sorted(root.glob('*/patch*.diff')):
    name = f'{patch.parent.name}/{patch.stem}'
    if only and not any(name.startswith(o) for o in only):
        continue
    rc, o = sh(f'git -C /repo apply {patch}')
    if rc:
        res[name] = {'applies': False}
        print(name, 'does not apply', o[:200], flush=True)
        continue
    row = {}
    try:
        for c in ids:
            rc, o = sh(f'VERIF_NO_ESCALATE=1 ./check {c}', cwd=V)
            if rc:
                row[c] = [l.strip()[:260] for l in o.splitlines() if l.startswith('  ')][:2]
    finally:
        sh('git -C /repo checkout -- .')
    res[name] = {'applies': True, 'alarms': row}
    desc = (patch.with_suffix('.txt').read_text().strip()[:90] if patch.with_suffix('.txt').exists() else '')
    print(name, 'alarms:', sorted(row) or 'none', '|', desc, flush=True)
    for c, ls in row.items():
        print('    ', c, ls[0] if ls else '', flush=True)
(root / 'battery.json').write_text(json.dumps(res, indent=1))
assert sh('git -C /repo status --short')[1].strip() == ''
