#!/usr/bin/env python3
"""Print the markdown table of DESIGN.md section 13 from seeded/*/meta.json and seeded/matrix.json."""
import json
from pathlib import Path
V = Path('/verif')
matrix = json.loads((V / 'seeded' / 'matrix.json').read_text())
print('| seed | change (from the sub-agent\'s summary) | own check | first report |')
print('|---|---|---|---|')
for d in sorted((V / 'seeded').iterdir()):
    if not (d / 'meta.json').exists():
        continue
    m = json.loads((d / 'meta.json').read_text())
    own = m['property']
    row = matrix.get(d.name, {})
    v = row.get('checks', {}).get(own, {}).get('verdict', '?')
    verdict = {'concrete': 'failing input', 'no-failing-input-found': 'closed only', 'pass': 'MISSED'}.get(v, v)
    fr = (row.get('first_report') or m.get('ran', {}).get('first_report_of_own_check') or [''])
    fr = (fr[0] if fr else '').replace('|', '/').replace('\n', ' ')[:110]
    summ = m['summary'].replace('|', '/').replace('\n', ' ')
    summ = summ[:150] + (' ...' if len(summ) > 150 else '')
    print(f'| {d.name} | {summ} | {own}: {verdict} | {fr} |')
