#!/usr/bin/env python3
"""Confirm a seeded change (patch + demo) in a scratch worktree, then run the checks against it in /repo.
usage: try_seed.py <dir with patch.diff demo.py meta.json> [check ids ...]   (default: the property of meta.json)"""
import json, os, subprocess, sys, shutil, tempfile
from pathlib import Path

def sh(cmd, cwd=None, env=None):
    e = dict(os.environ); e.update(env or {})
    p = subprocess.run(cmd, shell=True, cwd=cwd, env=e, stdout=subprocess.PIPE, stderr=subprocess.STDOUT, text=True)
    return p.returncode, p.stdout

d = Path(sys.argv[1]).resolve()
meta = json.loads((d / 'meta.json').read_text())
checks = sys.argv[2:] or [meta['property']]
res = {'dir': str(d), 'property': meta['property']}
wt = tempfile.mkdtemp(prefix='seedwt.', dir='/tmp')
os.rmdir(wt)
rc, o = sh(f'git -C /repo worktree add -q --detach {wt} HEAD')
try:
    rc, o = sh(f'PYTHONPATH={wt} /venv/bin/python {d}/demo.py', cwd=wt)
    res['demo_unchanged_rc'] = rc
    rc, o = sh(f'git apply {d}/patch.diff', cwd=wt)
    res['patch_applies'] = rc == 0
    rc, o = sh(f'PYTHONPATH={wt} /venv/bin/python {d}/demo.py', cwd=wt)
    res['demo_changed_rc'] = rc
    rc, o = sh('/venv/bin/python -m pytest -q -p no:cacheprovider 2>&1 | tail -1', cwd=wt)
    res['tests'] = o.strip()
finally:
    sh(f'git -C /repo worktree remove --force {wt}')
res['confirmed'] = res['demo_unchanged_rc'] == 0 and res['patch_applies'] and res['demo_changed_rc'] != 0 and '218 passed' in res.get('tests', '')
if res['confirmed'] and '--no-checks' not in sys.argv:
    rc, o = sh(f'git -C /repo apply {d}/patch.diff')
    try:
        res['checks'] = {}
        for c in checks:
            if c.startswith('-'):
                continue
            rc, o = sh(f'./check {c}', cwd='/verif')
            lines = [l for l in o.splitlines() if l.startswith('VIOLATION') or l.startswith('  ')]
            res['checks'][c] = {'rc': rc, 'violations': sum(1 for l in o.splitlines() if l.startswith('VIOLATION')),
                                'no_input_only': all('no-failing-input-found' in l for l in o.splitlines() if l.startswith('VIOLATION')) if rc else None,
                                'first': [l[:260] for l in lines[:4]]}
    finally:
        sh('git -C /repo checkout -- .')
        rc, o = sh('git -C /repo status --short')
        res['repo_clean_after'] = o.strip() == ''
print(json.dumps(res, indent=1))
