#!/usr/bin/env python3
"""Run every quick check against every seeded change (applied to /repo, reverted straight afterwards).
Writes seeded/matrix.json and fills meta.json['ran'] of each seed.  usage: seed_matrix.py [seed ids ...]"""
import json, os, subprocess, sys
from pathlib import Path
V = Path('/verif')
ids = os.environ.get('MATRIX_CHECKS', '').split() or [f'C{i:02d}' for i in range(1, 21)]
seeds = sys.argv[1:] or [d.name for d in sorted((V / 'seeded').iterdir()) if (d / 'patch.diff').exists()]

def sh(cmd, cwd=None):
    p = subprocess.run(cmd, shell=True, cwd=cwd, stdout=subprocess.PIPE, stderr=subprocess.STDOUT, text=True)
    return p.returncode, p.stdout

mpath = V / 'seeded' / 'matrix.json'
matrix = json.loads(mpath.read_text()) if mpath.exists() else {}
assert sh('git -C /repo status --short')[1].strip() == '', 'repo not clean'
for s in seeds:
    d = V / 'seeded' / s
    rc, o = sh(f'python3 tools/try_seed.py {d} --no-checks', cwd=V)
    conf = json.loads(o)
    own = json.loads((d / 'meta.json').read_text())['property']
    row = {'confirmed': conf['confirmed'], 'tests': conf.get('tests'), 'checks': {}}
    if conf['confirmed']:
        rc, o = sh(f'git -C /repo apply {d}/patch.diff')
        try:
            for c in ([own] if os.environ.get('MATRIX_OWN_ONLY') else ids):
                rc, o = sh(('' if c == own else 'VERIF_NO_ESCALATE=1 ') + f'./check {c}', cwd=V)
                vl = [l for l in o.splitlines() if l.startswith('VIOLATION')]
                concrete = [l for l in vl if 'no-failing-input-found' not in l]
                row['checks'][c] = {'rc': rc, 'verdict': 'pass' if rc == 0 else ('concrete' if concrete else 'no-failing-input-found'), 'violations': len(vl)}
                if rc and c == own:
                    det = [l.strip()[:300] for l in o.splitlines() if l.startswith('  ')][:2]
                    row['first_report'] = det
        finally:
            sh('git -C /repo checkout -- .')
            row['repo_clean_after'] = sh('git -C /repo status --short')[1].strip() == ''
    matrix[s] = row
    mpath.write_text(json.dumps(matrix, indent=1, sort_keys=True))
    meta = json.loads((d / 'meta.json').read_text())
    caught = sorted(c for c, r in row['checks'].items() if r['verdict'] == 'concrete')
    closed = sorted(c for c, r in row['checks'].items() if r['verdict'] == 'no-failing-input-found')
    meta['ran'] = {'confirmation': 'tools/try_seed.py: scratch worktree of /repo at HEAD; demo.py exits 0 unchanged, non-zero with patch.diff applied; '
                                   'pytest -q in the patched worktree: ' + str(conf.get('tests')),
                   'checks': 'git -C /repo apply patch.diff; ./check C01..C20 (quick tier); git -C /repo checkout -- .',
                   'caught_with_failing_input_by': caught, 'caught_without_failing_input_by': closed,
                   'first_report_of_own_check': row.get('first_report')}
    (d / 'meta.json').write_text(json.dumps(meta, indent=1))
    print(s, 'confirmed', conf['confirmed'], 'concrete', caught, 'closed', closed, flush=True)
