#!/bin/bash
# thorough tier of every check under several seeds on the current tree; prints only alarms and the summary lines
cd /verif
for seed in ${SEEDS:-20260930 20260931 7}; do
  for i in $(seq -w 1 20); do
    VERIF_SEED=$seed ./check C$i --tier thorough 2>&1 | grep -v "^note\|^KNOWN" | grep "^VIOL\|^C[0-9][0-9] thorough\|^  " | cut -c1-700 | sed "s/^/[seed $seed] /"
  done
done
